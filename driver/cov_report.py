#!/usr/bin/env python3
# usage: cov_report.py <cov build dir> <repo> <out dir>
# Aggregates gcov data of the instrumented cppcms/booster archives (bin/coverage) into per-file line coverage and the list of
# functions no engine entered, for the source files the claimed properties are anchored in. Measurement only.
import sys, os, json, subprocess, collections, gzip
build, repo, out = sys.argv[1], os.path.realpath(sys.argv[2]), sys.argv[3]
ANCH = {  # property -> source files (prefix match on the path below /repo) its behaviour lives in
 "C01 C02 C03 C12 (E1 wire)": ["src/http_api.cpp", "src/scgi_api.cpp", "src/fastcgi_api.cpp", "src/cgi_api.cpp", "src/http_context.cpp", "src/http_request.cpp", "src/http_response.cpp", "src/http_content_filter.cpp", "src/http_file.cpp",
    "src/http_cookie.cpp", "src/http_content_type.cpp", "src/multipart_parser.h", "private/multipart_parser.h", "private/http_parser.h", "private/http_file_buffer.h", "private/cgi_api.h", "private/cgi_headers_parser.h", "private/http_protocol.h", "private/response_headers.h", "src/service.cpp", "src/cgi_acceptor", "private/cgi_acceptor.h",
    "src/internal_file_server.cpp", "src/applications_pool.cpp", "src/url_dispatcher.cpp", "src/forwarder.cpp", "src/connection_forwarder.cpp", "src/string_map.h", "private/string_map.h", "src/request_forwarder"],
 "C05 C06 (E5 session)": ["src/session_interface.cpp", "src/session_pool.cpp", "src/session_cookies.cpp", "src/session_sid.cpp", "src/session_dual.cpp", "src/session_memory_storage.cpp", "src/session_posix_file_storage.cpp", "src/session_tcp_storage.cpp",
    "src/hmac_encryptor.cpp", "src/aes_encryptor.cpp", "src/crypto.cpp", "src/urandom.cpp", "src/base64.cpp", "src/capi_session.cpp", "src/capi.cpp", "src/tcp_connector.cpp", "src/tcp_messenger.cpp"],
 "C07 C08 C09 (E2 E3 cache)": ["src/cache_storage.cpp", "src/cache_interface.cpp", "src/cache_pool.cpp", "private/buddy_allocator.h", "private/shmem_allocator.h", "private/posix_util.h", "src/base_cache", "private/hash_map.h", "private/basic_allocator.h", "private/fixed_block_allocator"],
 "C10 (E4 cache-net)": ["src/cache_over_ip.cpp", "src/tcp_cache_client.cpp", "src/tcp_cache_server.cpp", "src/tcp_connector.cpp", "src/tcp_messenger.cpp", "private/tcp_cache_protocol.h"],
 "C17 (E6 loop)": ["booster/lib/aio/src/", "src/thread_pool.cpp", "booster/lib/thread/src/"],
 "C18 (E7 crashfs)": ["src/session_posix_file_storage.cpp"],
}
lines = collections.defaultdict(dict)      # file -> line -> count
funcs = collections.defaultdict(dict)      # file -> (name,start) -> count
gcdas = []
for d, _, fs in os.walk(build):
    if "/h" == d[len(build):len(build)+2] and False: pass
    for f in fs:
        if f.endswith(".gcda") and "/h/" not in d + "/": gcdas.append(os.path.join(d, f))
for g in gcdas:
    r = subprocess.run(["gcov", "-j", "-t", "-o", os.path.dirname(g), g], capture_output=True, cwd=os.path.dirname(g))
    if r.returncode != 0 or not r.stdout: continue
    for doc in r.stdout.decode("utf-8", "replace").splitlines():
        if not doc.startswith("{"): continue
        try: j = json.loads(doc)
        except Exception: continue
        for f in j.get("files", []):
            p = os.path.realpath(os.path.join(j.get("current_working_directory", "."), f["file"]))
            if not p.startswith(repo + "/"): continue
            rel = p[len(repo) + 1:]
            L = lines[rel]
            for ln in f.get("lines", []): L[ln["line_number"]] = L.get(ln["line_number"], 0) + ln["count"]
            F = funcs[rel]
            for fn in f.get("functions", []):
                k = (fn.get("demangled_name") or fn["name"], fn["start_line"]); F[k] = F.get(k, 0) + fn["execution_count"]
os.makedirs(out, exist_ok=True)
with open(os.path.join(out, "summary.txt"), "w") as S, open(os.path.join(out, "unreached-functions.txt"), "w") as U:
    S.write("# line coverage of /repo sources by the engines (bin/coverage; gcov, no sanitizer; measurement only)\n")
    for group, pats in ANCH.items():
        S.write("\n== %s\n" % group); U.write("\n== %s\n" % group)
        tot = hit = 0
        for rel in sorted(lines):
            if not any(rel.startswith(p) for p in pats): continue
            L = lines[rel]; n = len(L); h = sum(1 for c in L.values() if c > 0)
            if n == 0: continue
            tot += n; hit += h
            F = funcs[rel]; fz = sorted([k for k, c in F.items() if c == 0], key=lambda k: k[1])
            S.write("%-52s lines %5d/%5d %5.1f%%  functions %3d/%3d\n" % (rel, h, n, 100.0 * h / n, len(F) - len(fz), len(F)))
            for k in fz: U.write("%s:%d  %s\n" % (rel, k[1], k[0][:160]))
        if tot: S.write("%-52s lines %5d/%5d %5.1f%%\n" % ("TOTAL", hit, tot, 100.0 * hit / tot))
json.dump({f: sorted(l for l, c in L.items() if c == 0) for f, L in lines.items() if any(f.startswith(p) for ps in ANCH.values() for p in ps)}, open(os.path.join(out, "unreached-lines.json"), "w"))
print(open(os.path.join(out, "summary.txt")).read())
