#!/usr/bin/env python3
"""Replaces the text between the SEED_TABLE markers of DESIGN.md with the output of driver/seed_table.py."""
import os,subprocess,re
H=os.path.dirname(os.path.dirname(os.path.abspath(__file__)))
t=subprocess.run(['python3',os.path.join(H,'driver','seed_table.py')],capture_output=True,text=True).stdout
p=os.path.join(H,'DESIGN.md'); s=open(p).read()
s=re.sub(r'<!-- SEED_TABLE_BEGIN -->.*?<!-- SEED_TABLE_END -->',lambda m:'<!-- SEED_TABLE_BEGIN -->\n'+t+'<!-- SEED_TABLE_END -->',s,flags=re.S)
open(p,'w').write(s)
