#!/usr/bin/env python3
"""Prints the markdown table of seeded defects (seeded/*/meta.json) for DESIGN.md section 10.7."""
import json,glob,os
HERE=os.path.dirname(os.path.dirname(os.path.abspath(__file__)))
rows=[]
for d in sorted(glob.glob(os.path.join(HERE,'seeded','*'))):
    try: m=json.load(open(os.path.join(d,'meta.json')))
    except Exception: continue
    c=m.get('my_check',{})
    needs=(m.get('needs') or '').replace('|','/').replace('\n',' ')
    if len(needs)>230: needs=needs[:227]+'...'
    rows.append("| %s | %s | %s | %s |"%(os.path.basename(d),', '.join(os.path.basename(f) for f in m.get('files_changed',[]))[:60],needs,
        ("**caught** (%s)"%', '.join(c.get('violation_classes',[]))[:150]) if c.get('detected') else ("**missed**" + (" - "+m.get('note','') if m.get('note') else ''))))
print("| seed | files | needs, to manifest | quick check of the property |")
print("|---|---|---|---|")
print("\n".join(rows))
