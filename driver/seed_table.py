#!/usr/bin/env python3
"""Prints the markdown table of seeded defects (seeded/*/meta.json) for DESIGN.md section 10.7."""
import json,glob,os
HERE=os.path.dirname(os.path.dirname(os.path.abspath(__file__)))
rows=[]
for d in sorted(glob.glob(os.path.join(HERE,'seeded','*'))):
    try: m=json.load(open(os.path.join(d,'meta.json')))
    except Exception: continue
    c=m.get('my_check',{})
    needs=(m.get('needs') or '').replace('|','/').replace('\n',' ')
    if len(needs)>230: needs=needs[:227]+'...'
    first = "missed, caught after strengthening" if m.get('missed_at_first_evaluation') else ("-" if not c.get('detected') else "caught")
    if m.get('note'): first = m['note']
    rows.append("| %s | %s | %s | %s | %s |"%(os.path.basename(d),', '.join(os.path.basename(f) for f in m.get('files_changed',[]))[:60],needs,first,
        ("**caught** (%s)"%', '.join(c.get('violation_classes',[]))[:150]) if c.get('detected') else "**not caught**"))
print("| seed | files | needs, to manifest | first evaluation | quick check now |")
print("|---|---|---|---|---|")
print("\n".join(rows))
