#!/usr/bin/env python3
"""Prints the markdown table of seeded defects (seeded/*/meta.json) for DESIGN.md section 10.7."""
import json,glob,os
HERE=os.path.dirname(os.path.dirname(os.path.abspath(__file__)))
rows=[]
for d in sorted(glob.glob(os.path.join(HERE,'seeded','*'))):
    try: m=json.load(open(os.path.join(d,'meta.json')))
    except Exception: continue
    c=m.get('my_check',{})
    needs=(m.get('needs') or '').replace('|','/').replace('\n',' ')
    if len(needs)>230: needs=needs[:227]+'...'
    reg = ''
    rp = os.path.join(d,'regress.txt')
    if os.path.exists(rp):
        rt = open(rp,errors='replace').read()
        import re as _re
        cl = sorted(set(_re.findall(r'class=(\S+)',rt)))
        if 'exit=' not in rt and 'error:' not in rt: rt = ''
        reg = '' if not rt else ("caught again (%s)"%', '.join(cl)[:110]) if 'VIOLATION property=' in rt else ("patch no longer applies (tree changed by later fixes)" if 'error:' in rt else "NOT caught")
    first = "missed, caught after strengthening" if m.get('missed_at_first_evaluation') else ("-" if not c.get('detected') else "caught")
    if m.get('note'): first = m['note']
    rows.append("| %s | %s | %s | %s | %s | %s |"%(os.path.basename(d),', '.join(os.path.basename(f) for f in m.get('files_changed',[]))[:60],needs,first,
        ("**caught** (%s)"%', '.join(c.get('violation_classes',[]))[:150]) if c.get('detected') else "**not caught**",reg))
print("| seed | files | needs, to manifest | first evaluation | evaluation kept in meta.json | final regression run (bin/seed-regress) |")
print("|---|---|---|---|---|---|")
print("\n".join(rows))
