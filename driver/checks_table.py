import sys, os
sys.path.insert(0, os.path.join(HERE, "driver"))
from props import PROPS, ENGINES
for _p, _c in PROPS.items():
    CHECKS[_p] = dict(engine=_c["engine"], category=_c["category"], text=_c["text"], note=_c["note"], technique=_c["technique"], design_ref=_c["design_ref"])
for _p in ["C01","C02","C03","C05","C06","C09","C10","C12","C17","C18"]:
    if _p not in PROPS:
        PENDING[_p] = "not claimed yet: the simulation engine for this property (DESIGN.md s3/s4) is not built in this commit"
