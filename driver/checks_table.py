ENGINES=[]
for _p in ["C01","C02","C03","C05","C06","C07","C08","C09","C10","C12","C17","C18"]:
    PENDING[_p]="not claimed yet: the simulation engine for this property (DESIGN.md s3/s4) is not built in this commit"
