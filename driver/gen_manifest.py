#!/usr/bin/env python3
"""Regenerates /verif/MANIFEST.json from the table below (single source of truth)."""
import json, os, subprocess
HERE=os.path.dirname(os.path.dirname(os.path.abspath(__file__)))

NA = {
 "C04":"XSS filter: pure function of (text, rule set); no schedule, clock, I/O, fault or shared state for a simulator to control - deterministic simulation has nothing to decide (DESIGN.md s6).",
 "C11":"JSON parse/serialize: pure function of in-memory input and stream locale; no concurrency, time, I/O or faults (DESIGN.md s6).",
 "C13":"File server roots: function of request path and a static directory tree; the property does not quantify over a changing tree, schedules or faults (transport is covered by C01-C03) (DESIGN.md s6).",
 "C14":"Text validators: per-byte/per-sequence predicates, quantifier asks for exhaustive enumeration of inputs - not a simulation target (DESIGN.md s6).",
 "C15":"Escaping/URL/base64 codecs: algebraic laws over strings; pure functions of input (DESIGN.md s6).",
 "C16":"Digests/HMAC/CBC: functions of (message, key, chunking of append calls); chunking is input structure, not a schedule (DESIGN.md s6).",
 "C19":"Serialization: archive save/load on in-memory buffers; pure function of input (DESIGN.md s6).",
 "C20":"URL routing: function of (mount configuration, request strings); no nondeterminism or faults involved (DESIGN.md s6).",
}
# id -> dict(engine, category, text, note, technique, design_ref)
CHECKS = {}
PENDING = {}
exec(open(os.path.join(HERE,"driver","checks_table.py")).read())

def main():
    hooks_commits=[l.split()[0] for l in subprocess.run(["git","-C","/repo","log","--format=%h %s"],capture_output=True,text=True).stdout.splitlines() if "verif hook" in l]
    m={"version":1,
       "setup_cmd":"bin/setup",
       "hooks":{"guard":"ARTYOM_BEILIS_CPPCMS_VERIF",
                "enable":"bin/build-repo <asan|tsan> configures /repo with -DARTYOM_BEILIS_CPPCMS_VERIF in CMAKE_CXX_FLAGS into /verif/build/<variant> (static archives only)",
                "baseline_off_cmd":"bin/baseline-off",
                "source_commits":hooks_commits,
                "add_only":True},
       "engines":ENGINES,
       "checks":[],
       "notes":"Deterministic simulation with fault injection; see DESIGN.md. Exit codes of checks: 0 held, 1 violation (VIOLATION line), 2 machinery fault.",
       "not_applicable":[]}
    for pid in sorted(CHECKS):
        c=CHECKS[pid]
        m["checks"].append({"property_id":pid,
            "quick_cmd":"bin/check %s --tier quick"%pid,
            "thorough_cmd":"bin/check %s --tier thorough"%pid,
            "evidence_file":"evidence/%s.json"%pid,
            "replay_cmd_template":"bin/check %s --replay {path}"%pid,
            "engine":c["engine"],
            "level_claimed":{"category":c["category"],"text":c["text"],"design_ref":c["design_ref"]},
            "level_note":c["note"],
            "technique":c["technique"]})
    for pid in sorted(set(NA)|set(PENDING)):
        if pid in CHECKS: continue
        m["not_applicable"].append({"property_id":pid,"reason":NA.get(pid) or PENDING[pid]})
    json.dump(m,open(os.path.join(HERE,"MANIFEST.json"),"w"),indent=1)
    print("MANIFEST.json: %d checks, %d not_applicable"%(len(m["checks"]),len(m["not_applicable"])))
main()
