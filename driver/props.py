"""Per-property configuration of the simulation checks: single source for bin/check and MANIFEST.json."""

E1C = {'real': ['cppcms::service, applications_pool, http / scgi / fastcgi connection classes (src/http_api.cpp, scgi_api.cpp, fastcgi_api.cpp), private/http_parser.h, cgi_api.cpp (load_content, pending output), http::context/request/response, response stream buffers, gzip (zlib), page cache (thread_shared), thread pool, booster::aio io_service + reactor (epoll/poll/select) + stream_socket + acceptor, HTTP watchdog'], 'stub': ['kernel sockets / pipes / readiness / clock (sim/simk)', 'the web server in front of SCGI/FastCGI and the browsers (harness encoders/decoders in harness/wire_proto.h)', 'thread scheduler']}
E5C = {'real': ['cppcms::session_interface, session_pool::init (config parsing, key checks), sessions::session_cookies / session_sid / session_dual, hmac_cipher, aes_cipher (+ OpenSSL AES/SHA, bundled md5/sha1), b64url, session_memory_storage, session_file_storage on the simulated file system, urandom_device on simulated /dev/urandom'], 'stub': ['browsers (cookie jar honouring Max-Age/Expires against the simulated clock, per-request snapshot of sent cookies)', 'attackers (cookie rewriting)', 'clock', 'entropy (/dev/urandom served from the seed)', 'disk (simulated FS with short/interrupted I/O)']}
E4C = {'real': ['cppcms::impl::tcp_cache_service (acceptor, per-connection sessions, its own io_service threads)', 'cache_over_ip, tcp_cache, tcp_connector (key -> server hash), messenger (blocking sockets, reconnect-and-retry)', 'L1 and server mem_cache<thread_settings>', 'booster::aio stream_socket / acceptor / io_service / reactor'], 'stub': ['network (simulated stream sockets with segmentation, bounded channels, injected resets)', 'clock (per-node skew)', 'process boundaries: a node is a group of sim threads; a server restart destroys and re-creates the server objects', 'thread scheduler']}
E2_COMPONENTS = {"real": ["cppcms::impl::mem_cache<thread_settings> (src/cache_storage.cpp)", "mem_cache<process_settings> + shmem_control + buddy_allocator (shared memory)", "private/hash_map.h",
                          "cppcms::cache_interface + triggers_recorder over a real cppcms::service / cache_pool"],
                 "stub": ["clock (time() read by the cache) - simulated, advanced by plan ops"]}

PROPS = {
 "C07": dict(repo_probes=['cache.bad_alloc_clears_cache'], engine="E2 cache-seq", src="e2_cache_seq", variants=["asan"], level="exploration",
   seconds={"quick": 45, "thorough": 600},
   rule="cases = operation sequences over the cache API (store/fetch/rise/remove/clear/stats/clock-advance; through base_cache and through cache_interface with nested triggers_recorders) "
        "checked op by op against a sequential reference model; the first 16^3 (quick) / 16^5 (thorough) indices enumerate ALL sequences of that length over a 16-op alphabet on 2 keys/1 trigger, "
        "the rest are seeded random sequences of 8..400 ops (swarm: backend thread/process_shared, limit, alphabets, value sizes, deadlines). "
        "Added in round 2: half of the cache_interface plans run inside a request context (an application on the repository's dummy connection) with whole pages: fetch_page / store_page, the page inheriting every trigger the request added or fetched; one store in six repeats the exact bytes of an earlier store; a third of the plans use key names with identical string_hash values (one bucket chain). non-trivial = a fetch HIT was observed after at least one invalidation event (trigger raise that hit, remove that hit, clear, deadline passed); distinct = distinct (op-shape sequence, backend, limit) hash",
   fault_keys=["memory_pressure_events", "tick"],
   probe_keys=["restore_existing", "key_as_trigger", "rise_multi", "fetch_miss_expired", "inherit_into_recorder", "rec_store_inherited", "pfetch", "pfetch_hit", "pstore", "pstore_with_inherited_triggers", "memory_pressure_events", "ambiguous_states"],
   components=E2_COMPONENTS,
   assumptions=["the sequential reference model (harness/cache_model.h) encodes the documented semantics listed in DESIGN.md Appendix A",
                "process_shared back-end is exercised from one process (forked child per run); cross-process locking is not simulated",
                "under shared-memory exhaustion the oracle accepts: extra evictions in the prescribed order, a cleared cache, or the new value not being kept (old entry removed); never a stale or foreign value",
                "sampling, not proof; the enumerated slice is exhaustive only for the stated alphabet and length"],
   category="exploration",
   text="Seeded deterministic simulation: real cache back-ends and cache_interface run against a sequential reference model under a simulated clock, op-by-op equality (value, trigger set, deadline, stats); plus a bounded-exhaustive slice of short sequences. Evidence over sampled histories, not proof; right level because the property quantifies over histories and clock advances which the simulator owns.",
   note="Trusts the reference model (harness/cache_model.h) and ASan/UBSan; shared-memory pressure outcomes are relaxed narrowly (see assumptions in evidence).",
   technique="deterministic simulation (simulated clock) + sequential reference model, seeded search with minimised replay; bounded-exhaustive slice",
   design_ref="DESIGN.md s4 C07, s3 E2"),
 "C08": dict(repo_probes=['cache.evict_expired_first', 'cache.evict_lru_tail', 'cache.bad_alloc_clears_cache'], engine="E2 cache-seq", src="e2_cache_seq", variants=["asan"], level="exploration",
   seconds={"quick": 45, "thorough": 600},
   rule="cases = operation sequences as in C07 with limit 1..8 and key alphabets larger than the limit, deadlines straddling the simulated clock, value sizes up to beyond shared memory, long fill/clear cycles on the process_shared back-end; "
        "stats and every fetch compared with a model implementing 'expired first, then LRU tail'; after each clear() of the shared segment the free shared memory must be back at its baseline (minus a slack of 64 page headers for a different page structure); 'storm' operations issue bursts of stores whose long keys exhaust the segment while a node is being built. "
        "first 2*16^3 (quick) / 2*16^5 (thorough) indices enumerate all short sequences for limit 1 and 2. Added in round 2: exact-repeat values and colliding key names as in C07; long cycles use keys of at most 31 KB (cost). non-trivial = at least one eviction was forced by the limit and a later fetch hit; distinct = distinct (op-shape, backend, limit) hash",
   fault_keys=["memory_pressure_events", "tick"],
   probe_keys=["evict_expired", "evict_lru", "leak_checks", "alloc_storms", "memory_pressure_events", "key_as_trigger", "ambiguous_states"],
   components=E2_COMPONENTS,
   assumptions=["same as C07", "eviction order is observed through later fetches (values are unique per store), not by inspecting internals"],
   category="exploration",
   text="Seeded deterministic simulation of the cache under a size limit against a model of the eviction rule (expired first, then LRU), with shared-memory fill/clear cycles checking that memory is released. Evidence over sampled histories, not proof.",
   note="Trusts the reference model and the legal-outcome relaxation under memory pressure for the process_shared back-end.",
   technique="deterministic simulation (simulated clock, real shared-memory allocator) + reference model of eviction, seeded search with minimised replay",
   design_ref="DESIGN.md s4 C08, s3 E2"),
 "C09": dict(engine="E3 cache-conc", src="e3_cache_conc", variants=["tsan", "asan"], level="exploration",
   seconds={"quick": 40, "thorough": 600},
   rule="cases = (2..8 threads x 1..10 cache ops each over 1..3 keys / 0..2 triggers, limit in {0,1,2,4}, optional sequential prefix) x a seeded schedule (random walk, PCT depth 1..3, run-to-block) that decides every interleaving at "
        "each rwlock/mutex operation inside the real cache. Each run: TSan (tsan variant) or ASan/UBSan (asan variant) watches the real accesses; the recorded invoke/return history (stamped with a global event counter) is searched for a linearization against "
        "the sequential cache model (Wing-Gong-Lowe with memoisation, <= 40 ops, <= 2e6 states, else counted inconclusive). Added in round 2: half of the plans use key names with identical string_hash values so that the operations meet in one bucket chain. non-trivial = history contains >= 1 pair of time-overlapping operations by different threads on the same key/trigger; distinct = distinct schedule trace hash",
   fault_keys=[],
   probe_keys=["rw_contended", "overlapping_same_key_pairs", "strategy_pct", "strategy_random", "strategy_run_to_block", "lin_inconclusive"],
   components={"real": ["cppcms::impl::mem_cache<thread_settings> incl. its locking (booster::shared_mutex = pthread_rwlock, std::mutex lru_mutex)", "real OS threads (std::thread), parked/released one at a time"],
               "stub": ["thread scheduler (simk: decides who runs at every intercepted lock operation)", "clock (fixed during the concurrent phase)"]},
   assumptions=["preemption only at intercepted synchronisation operations: sound for data-race-free code, and the DRF premise is what TSan checks on the same runs",
                "TSan happens-before is computed from the cache's own real pthread lock operations (the scheduler parks threads with raw futexes that TSan does not see, simulator TUs are not instrumented)",
                "linearizability search capped at 2e6 states per history; capped searches are reported as inconclusive, never as violations",
                "sampling of schedules, not enumeration"],
   category="exploration",
   text="Deterministic simulation of real threads on the real cache: a seeded scheduler picks every interleaving at lock operations; ThreadSanitizer/ASan watch each run and every recorded history is checked for linearizability against the sequential model. Evidence over sampled schedules and histories.",
   note="Trusts TSan's happens-before analysis, the sequential cache model and the interception of all synchronisation the cache uses (pthread mutex/rwlock).",
   technique="deterministic simulation: seeded thread scheduler over real threads (parked at intercepted lock operations) + TSan + linearizability checking against a sequential model",
   design_ref="DESIGN.md s4 C09, s3 E3"),
 "C18": dict(repo_probes=['session_file.crc_mismatch'], engine="E7 crashfs", src="e7_crashfs", variants=["asan"], level="fault_enumeration",
   seconds={"quick": 40, "thorough": 600},
   rule="case = one sampled history (0..6 save/load/remove/gc/clock-advance/planted-garbage ops on two session ids, optional short/interrupted file I/O) followed by a save whose crash states are ENUMERATED on the simulated disk: "
        "every prefix of the sequence of file operations, every byte prefix of a data-area write (all positions up to 600 bytes, else first/last 64, every sector edge +-2 and 64 random), and every subset of the dirty 512-byte sectors when <= 10 are dirty "
        "(else single-missing/single-present/prefix/suffix subsets + random ones), each with old and new file length and with/without the new directory entry; after each state a fresh storage object loads (or gc+loads, or loads twice) under a possibly advanced clock. "
        "evaluations = histories; crash_states (in coverage) = crash images checked. non-trivial = a history whose enumeration produced both 'no session' and 'complete value' outcomes; distinct = distinct (trace, outcome-count) hash",
   fault_keys=["crash_states", "states_process_prefix", "states_torn_write", "states_power_loss", "file_short_io", "file_eintr", "garbage", "tick"],
   probe_keys=["probe_multi_sector", "probe_old_longer_than_new", "probe_equal_length", "probe_old_shorter_than_new", "probe_new_file", "crash_load_old", "crash_load_new", "crash_load_none", "sector_subsets_exhaustive", "garbage_loads", "gc"],
   components={"real": ["cppcms::sessions::session_file_storage (save/load/remove/gc, locking, CRC) via session_file_storage_factory"],
               "stub": ["disk: in-memory file system with a write journal (sim/simk), crash images materialised from the journal", "clock", "process death / power loss (fresh storage object over the surviving image)"]},
   assumptions=["the 16-byte header write is atomic (it lies inside one sector) - stated by the property", "sector size 512 bytes; a sector is either wholly old or wholly new after power loss; un-persisted extension reads as zeros",
                "CRC-32 collisions are outside the reach of sampling (a mixture that collides is accepted by the code with probability 2^-32 per state)",
                "histories are sampled; within a history the crash-state space is enumerated as described in rule (exhaustive for sector subsets when <= 10 sectors are dirty)"],
   category="fault_enumeration",
   text="Deterministic simulation of the disk under the real session_file_storage: for each sampled history the crash states of a save (write-sequence prefixes, torn data writes, dirty-sector subsets, length/dir-entry variants) are enumerated systematically and a restarted storage must return a whole earlier save or nothing. Fault enumeration is the right level because the property quantifies over crash points.",
   note="Trusts the simulated file system's crash model (sector granularity, atomic header) and ASan; histories are sampled, crash states per history are enumerated.",
   technique="deterministic simulation of the file layer with systematic crash-state enumeration (journal replay: write prefixes, torn writes, sector subsets) after seeded histories",
   extra=True,
   design_ref="DESIGN.md s4 C18, s3 E7"),
 "C17": dict(repo_probes=['io_service.post_while_polling_wakes_loop', 'io_service.cancel_found_timer_armed', 'io_service.woken_by_interrupter'], engine="E6 loop", src="e6_loop", variants=["asan", "tsan"], level="exploration",
   seconds={"quick": 50, "thorough": 700},
   rule="cases = (one loop thread in io_service::run() on reactor epoll|poll|select + 1..4 producer threads issuing post / set_timer_event / cancel_timer_event / set_io_event / cancel_io_events (on the loop thread, or in 1/8 of runs directly cross-thread) / make-descriptor-ready / sleep, "
        "+ 0..2 deadline_timer / stream_socket async_read / async_write chains driven on the loop thread against a peer thread that feeds/drains in pieces, with short reads/writes, EAGAIN, spurious readiness, EINTR; optionally stop() racing the producers) "
        "or (cppcms::thread_pool with 1..4 workers and 1..4 threads posting / cancelling, jobs that throw, optional stop() race), each x a seeded schedule (random / PCT / run-to-block) and a simulated clock. "
        "Every handler is a counting functor: invoked exactly once on the loop thread, timers not before their deadline, descriptor waits only with data present or with canceled/select_failed, jobs at most once and exactly once unless cancelled; all functor objects destroyed. "
        "Added in round 2: operations issued before run() is called for the first time (post, arm, cancel: a wait armed and cancelled there must complete as canceled once the loop runs two posted handlers); one pair of dependent pool jobs per pool plan (the first waits on its worker for the second; with >= 2 workers the second must get one within 30 simulated seconds). non-trivial = run with > 4 thread switches and >= 2 handlers; distinct = distinct schedule trace hash",
   fault_keys=["eintr", "short_reads", "short_writes", "spurious_wakeups", "eagain", "loop_stop_race", "pool_stop_race", "pool_threw"],
   probe_keys=["reactor_epoll", "reactor_poll", "reactor_select", "handlers_cancelled_or_error", "aread_ok", "aread_err", "awrite_ok", "awrite_err", "pool_cancelled", "pool_dependent_pairs", "waits_cancelled_before_run", "xthread_cancelled_waits", "extra_cancel_rounds", "mutex_contended", "cv_waits", "strategy_pct", "strategy_random", "strategy_run_to_block"],
   components={"real": ["booster::aio::io_service (event_loop_impl), reactor (epoll, poll, select back-ends), select_interrupter, deadline_timer, basic_io_device, stream_socket (async_read/async_write)", "cppcms::thread_pool", "real OS threads"],
               "stub": ["kernel: sockets, pipes, epoll/poll/select readiness, short I/O and EINTR (sim/simk)", "clock", "thread scheduler"]},
   assumptions=["only operations documented thread-safe are issued from foreign threads; device/timer objects are used on the loop thread; a timer id is cancelled at most once and not after its handler ran (documented contract)",
                "the loop polls with a 0 ms timeout during the last millisecond before a timer: the simulated clock therefore always ticks (>= 1 us per scheduling step)",
                "TSan variant: happens-before from the code's own pthread locks only (simulator uninstrumented)", "sampling of schedules, not enumeration"],
   category="exploration",
   text="Deterministic simulation of the real event loop, reactors, timers, sockets and worker pool on simulated descriptors and clock: a seeded scheduler decides every interleaving of producers against the loop; counting handlers decide exactly-once / right thread / right code; TSan and ASan watch the same runs.",
   note="Trusts the simulated kernel's readiness semantics (level-triggered) and TSan; known finding xthread-cancel-io-lost is listed in known-findings.json.",
   technique="deterministic simulation: seeded thread scheduler + simulated epoll/poll/select, sockets and clock under the real io_service/thread_pool; counting-handler oracle; TSan",
   design_ref="DESIGN.md s4 C17, s3 E6"),
 "C01": dict(repo_probes=['fastcgi.record_served_from_cache', 'fastcgi.record_not_yet_complete_in_cache', 'fastcgi.padded_record', 'http.body_bytes_from_header_read_ahead', 'http.next_request_already_in_read_ahead'], engine="E1 wire", src="e1_wire", variants=["asan"], level="exploration",
   seconds={"quick": 50, "thorough": 800},
   rule="case = one real cppcms::service (reactor epoll|poll|select, 1..3 workers, buffer sizes 1..64K) serving 1..5 simulated connections x 1..4 well-formed requests each over http / scgi / fastcgi (sync or async mount, keep-alive / KEEP_CONN sequences), "
        "each request with its own client-side segmentation (whole, few cuts, byte dribble), FastCGI PARAMS/STDIN record sizes and padding, channel capacities and read pace; the transport additionally splits reads/writes, injects EINTR and spurious readiness. "
        "Oracle: the echo application's observation (every CGI variable, GET/POST fields, cookies, raw body) must equal an independent model of the request for that protocol; status 200, handler entered exactly once, response framing valid. "
        "Added in round 2: header values/names, query strings and path segments around and above the environment pool's page size (1018..6000 bytes, shared 7000-byte budget so that the head stays under the front-ends' 16 KiB), folded header values (obs-fold, one value in five), slow peers (pauses between segments each below 0.45 x http.timeout, together above it), HTTP/1.0 requests must not be answered with the chunked coding; HTTP/1.1 pipelining (a third of the connections send the next plain request right behind the previous one, before reading its response). non-trivial = run in which a request had >= 2 segments or a body; distinct = distinct simulation trace hash",
   fault_keys=["short_reads", "short_writes", "eagain", "eintr", "spurious_wakeups"],
   probe_keys=["multi_segment_requests", "requests_with_body", "keepalive_followups", "pipelined_requests", "slow_peer_pauses", "chunked_responses", "reactor_epoll", "reactor_poll", "reactor_select"],
   components=E1C,
   assumptions=["generated requests stay inside the sub-language where RFC 3875/7230 and the cppcms documentation leave no choice (no '+' or invalid %-escapes in paths, token header names, no duplicate headers)",
                "the simulated kernel follows Linux semantics for the calls cppcms makes (level-triggered readiness, short I/O, EAGAIN/EINTR) but is a model", "sampling of requests, segmentations and schedules"],
   category="exploration",
   text="Deterministic simulation of the whole service over simulated sockets: seeded request generation, segmentation, transport faults and thread schedules; the application's observation is compared with an independent request model for all three front-ends.",
   note="Trusts the harness's own protocol encoders/decoders and request model (harness/wire_proto.h) and the simulated socket semantics.",
   technique="deterministic simulation: real service on simulated sockets/clock/scheduler, seeded segmentation + fault injection, independent request model as oracle",
   design_ref="DESIGN.md s4 C01, s3 E1"),
 "C02": dict(repo_probes=['fastcgi.record_not_yet_complete_in_cache', 'http.next_request_already_in_read_ahead'], engine="E1 wire", src="e1_wire", variants=["asan"], level="exploration",
   seconds={"quick": 50, "thorough": 800},
   rule="case = as C01, but at least one connection per run ends with a MALFORMED exchange: a valid encoding mutated by one of ~45 operators (truncate at any offset, bit flips, insert/delete, garbage, negative/huge/non-numeric/duplicate/mismatching Content-Length, endless or oversized headers, bare LF, NUL bytes, "
        "SCGI length lies / missing comma / unterminated last string, FastCGI wrong version/type/role/request id, record and pair length lies, STDIN longer/shorter, GET_VALUES, stray records, PARAMS never closed, declared length over the limit) followed by close, half-close or silence; "
        "well-formed probe requests run concurrently on the other connections. Oracle: no sanitizer report / signal / exception out of service::run(); every probe answered exactly as C01 demands; handler entered <= 1 per request; requests that cannot be served never reach the application and get status >= 400 or a close; "
        "the offending connection is answered or closed within http.timeout+6 simulated seconds; no accepted connection stays open after all peers are gone. Added in round 2: malformation fold_insert (CRLF + SP/HT a few characters into a line of the head), long header values on kept-alive connections (string-pool pages), the client gates its full parsers with an incremental completeness scan (harness cost). non-trivial = run with >= 1 malformed exchange and >= 1 probe; distinct = trace hash",
   fault_keys=["malformed_exchanges", "short_reads", "short_writes", "eagain", "eintr", "spurious_wakeups"],
   probe_keys=["malformed_refused_as_required", "exchanges", "keepalive_followups", "filter_on_error_calls", "filters_installed", "reactor_epoll", "reactor_poll", "reactor_select"],
   components=E1C,
   assumptions=["nothing is demanded about WHETHER cppcms tolerates a malformed input or WHICH error it picks, except for the listed classes that cannot be served", "ASan/UBSan (minus the nonnull-attribute check: memcpy(NULL,..,0) is not treated as memory-unsafe) decide memory safety",
                "peer RST-on-close-with-unread-data is not modelled (closes are graceful)"],
   category="exploration",
   text="Deterministic simulation with fault injection at the byte level: grammar-mutated and random request bytes, peer close/half-close/stall at arbitrary offsets, concurrent well-formed probes; sanitizers and the probes' exact answers are the oracle.",
   note="Trusts ASan/UBSan, the mutation operators' classification of 'cannot be served', and the simulated socket semantics.",
   technique="deterministic simulation with byte-level fault injection (mutated requests, peer close/half-close/stall), sanitizers + concurrent probe requests as oracle",
   design_ref="DESIGN.md s4 C02, s3 E1"),
 "C03": dict(repo_probes=['cgi.nonblocking_write.nothing_accepted', 'cgi.nonblocking_write.partial_with_remainder'], engine="E1 wire", src="e1_wire", variants=["asan"], level="exploration",
   seconds={"quick": 50, "thorough": 800},
   rule="case = a 'writer' application executes a generated script (0..40 writes of 0..200000 bytes incl. byte-at-a-time, flushes, setbuf(k) incl. 0, headers, cookies, content type, io_mode normal|nogzip|raw|asynchronous|asynchronous_raw (raw: own header block written in 1..70-byte pieces), full/partial async buffering, optional page cache key shared between requests) "
        "for http 1.0/1.1 (keep-alive, Content-Length or chunked), scgi, fastcgi; gzip on/off; client channel capacity 1 B..256 KiB and read pace from the plan; every writev may accept any prefix or EAGAIN. "
        "Oracle: an independent de-framer (chunked / Content-Length / until-close / FastCGI STDOUT records + END_REQUEST) yields the body, gunzipped when encoded, which must equal the script's bytes (position-dependent pattern), one header block with every header/cookie set, a cached page byte-identical to a stored one. "
        "Added in round 2: a response to an HTTP/1.0 request must not use the chunked transfer coding (RFC 7230 3.3.1). non-trivial = run with >= 2 segments or body; distinct = trace hash",
   fault_keys=["short_writes", "eagain", "short_reads", "eintr", "spurious_wakeups"],
   probe_keys=["writer_responses", "gzip_responses", "chunked_responses", "page_cache_hits", "raw_mode_responses", "client_aborts_mid_response", "keepalive_followups"],
   components=E1C,
   assumptions=["in raw io modes the application writes a CGI style header block in pieces; headers set through the API are then not expected", "a client that resets the connection in the middle of a response (10% of writer exchanges) switches the content oracle off for that connection: only no crash / no hang / handler at most once / connection released are demanded"],
   category="exploration",
   text="Deterministic simulation of the response path: seeded write scripts against simulated sockets that accept arbitrary prefixes; an independent de-framer reconstructs what the client received and compares it byte for byte with what the application wrote.",
   note="Trusts the harness's de-framers (HTTP chunked/length, CGI, FastCGI records, zlib inflate) and the simulated socket semantics.",
   technique="deterministic simulation: real response stack on simulated sockets with arbitrary partial writes / EAGAIN, independent de-framer + byte pattern oracle",
   design_ref="DESIGN.md s4 C03, s3 E1"),
 "C12": dict(repo_probes=['multipart.partial_boundary_match_reemitted'], engine="E1 wire", src="e1_wire", variants=["asan"], level="exploration",
   seconds={"quick": 50, "thorough": 800},
   rule="case = as C01, with 80% of POST/PUT bodies being multipart/form-data: 0..9 parts (quoted/unquoted names, optional filename, optional Content-Type => file vs field), contents 0..300 KB of random bytes / CR-LF-dash runs with planted look-alikes of the delimiter (every proper prefix of CRLF--boundary, delimiter minus last byte at the end, CRLF-- in the middle), "
        "boundaries of 1..70 chars incl. leading '-', sent over http/scgi/fastcgi to sync and async mounts with client segmentation, FastCGI STDIN record sizes, input_buffer_size 1..64K and transport read splitting deciding every parser chunk; file_in_memory_limit 0..128K (spill to temp files); content/multipart limits 1 KB..2 MB. "
        "Oracle: fields and files observed by the application (name, file name, media type, byte-exact content by length+hash+head+tail, order) equal those encoded; bodies over a limit get 413 and never reach the handler; malformed multipart bodies (C02 operators: no final boundary, bad part header, not form-data, truncation, length lies) never reach the handler; "
        "a third of the bodies sent to asynchronous mounts go through an application that installs a raw_content_filter or a multipart_filter: the raw filter must see every body byte exactly once (length+hash) with one on_end_of_content, the multipart filter one on_new_file/on_data_ready per part, sizes never shrinking, and on_error at most once and never together with completion; the upload directory is empty after the run. A quarter of the plans inject disk faults into the stdio calls on the spill files at explicit positions (fopen ENOSPC, short fwrite, failing fflush/fseek while data is buffered, optionally sticky = disk stays full): then a multipart request may be refused (413/500/503, handler not entered) but a 200 still has to be byte-exact and no temporary file may survive. Added in round 2: a quarter of the connections end with a malformed upload (operators mp_cut = body cut, consistently with its declared length, at structural points before the closing delimiter; mp_no_final_boundary, mp_bad_part_header, mp_no_name, cl_bigger, cl_over_limit, truncate). non-trivial = run with a body or >= 2 segments; distinct = trace hash",
   fault_keys=["short_reads", "short_writes", "eagain", "eintr", "spurious_wakeups", "disk_faults_injected"],
   probe_keys=["requests_with_body", "over_limit_413", "uploads_refused_after_disk_fault", "upload_spill_stdio_calls", "content_filter_requests", "filters_installed", "filter_on_error_calls", "multi_segment_requests", "keepalive_followups"],
   components=E1C,
   assumptions=["temp files live on a real scratch directory under /dev/shm (file contents are real, only failures of the stdio calls are simulated); read-side stdio errors (fread) are not injected",
                "media type is compared without parameters (file::mime() documents the media type)"],
   category="exploration",
   text="Deterministic simulation of uploads through the real front-ends and multipart parser: seeded part lists with adversarial boundary look-alikes, every chunking decided by client segmentation, buffer sizes and transport splitting; exact reconstruction, limits and temp-file clean-up are checked.",
   note="Trusts the harness's multipart encoder and model; upload spill files use the real file system with injected stdio failures.",
   technique="deterministic simulation: real multipart/upload path on simulated sockets, seeded chunking + adversarial contents, exact-reconstruction oracle",
   design_ref="DESIGN.md s4 C12, s3 E1"),
 "C05": dict(engine="E5 session", src="e5_session", variants=["asan", "tsan"], level="exploration",
   seconds={"quick": 40, "thorough": 600},
   rule="case = one server (session_pool with one of 13 encryptor configurations: hmac-{md5,sha1,sha224,sha256,sha384,sha512}, aes/aes128/aes192/aes256, split cbc+hmac keys) and a history of 3..43 operations: save(payload 0..64 KiB, age), load, clock advance (seconds..years), "
        "and attacker rewrites of the browser's cookie (single-bit flips - position enumerated across runs, truncation, extension, cipher block swaps, splices of two issued cookies, cookies issued by a server with another key or another algorithm, prefix change, random strings, replay of old cookies, non-canonical base64, empty cipher). "
        "Oracle over the history: load succeeds iff the presented cookie decodes (independent base64url decoder) to a cipher text this server issued and its deadline has not passed, and then returns exactly the data saved with it; rejected cookies are cleared from the jar, nothing throws; save-then-load is the identity; "
        "with encrypting back-ends equal payloads give different cookies, no 16-byte block repeats, the payload does not occur in the cookie; CBC-without-MAC and 8-byte keys are refused at configuration time. Added in round 2: the authentication tag of EVERY issued cookie is recomputed with OpenSSL from the configured key material and the documented construction (hmac-X: HMAC-X(key,payload); aes*: HMAC-SHA1 under HMAC-SHA256(key,0x01)[0..20); split keys) and must match; a 'pool race' scenario lets 2..4 worker threads share a freshly created session_pool (save + load back each), run by the ASan build now and then and exclusively by the TSan build. Round 3: attack tag_guess (body kept, 2..8 tag bytes replaced by guesses); no-entropy fault (open of /dev/urandom fails with EMFILE at plan-chosen calls): the operation may fail, a cookie that is issued all the same is checked like any other (never a predictable IV). non-trivial = history with >= 1 accepted and >= 1 rejected load; distinct = plan hash",
   fault_keys=["attacks", "ticks", "clock_jumps", "saves_refused_without_entropy", "loads_refused_without_entropy", "ops_failed_without_entropy"],
   probe_keys=["loads_accepted", "loads_rejected", "saves", "tags_recomputed_independently", "pool_race_threads", "config_refusal_checks", "repeated_cipher_block"],
   components=E5C,
   assumptions=["cryptographic strength itself is outside the reach of sampling: the structural confidentiality checks are necessary conditions only", "entropy comes from the simulated /dev/urandom (seeded)"],
   category="exploration",
   text="Deterministic simulation of the client-side session stack under a simulated clock, entropy source and an attacker rewriting the stored cookie at arbitrary points of a save/load history; a history oracle decides authenticity and expiry exactly.",
   note="Trusts the harness's independent base64url decoder and bookkeeping of issued cipher texts; sampling cannot establish cryptographic strength.",
   technique="deterministic simulation (clock, entropy, attacker actor) over save/load histories with a history oracle and an independent (OpenSSL) recomputation of every issued tag; seeded thread schedules + TSan for a shared pool",
   design_ref="DESIGN.md s4 C05, s3 E5"),
 "C06": dict(repo_probes=['session.save_skipped_fixed_unchanged', 'session.renewal_skipped_below_10_percent'], engine="E5 session", src="e5_session", variants=["asan"], level="exploration",
   seconds={"quick": 40, "thorough": 600},
   rule="case = 1..3 simulated browsers (sequential in plan order, or - 1/3 of multi-browser runs - one scheduled thread per browser plus an environment thread, seeded schedule) issuing 2..32 requests (load; 0..6 of set/erase/clear/expose/hide/age/default_age/expiration/default_expiration/on_server/reset_session; optional clock advance inside the request; save) against one session_pool with location client|server|both, storage memory|files (simulated FS, optional short/interrupted I/O)|network (20%: a real tcp_cache_service session server with its own thread on the simulated network, run in a forked child), "
        "expire fixed|renew|browser, client_size_limit flipping cookie/server storage, remove_unknown_cookies on/off; interleaved with clock advances (around deadlines and the 10% renewal boundary), gc, browser restarts and attacker requests (ended ids, path-like / upper-case / short / long / non-hex ids, junk C cookies). "
        "Oracle after every request: loaded view == reference model (values, exposed flags, age, expiration, on_server) or empty once cleared/expired (interval model: renewal may be skipped only while < 10% of the period has elapsed); cookie prefix (I/C) matches the prescribed storage location; server ids well-formed, fresh on new/reset sessions, old ids gone from the storage after clear/reset/migration; "
        "exposed values present in / absent from the browser's cookies in step with the session; ids not of the issued form never reach the storage (spy storage). Added in round 2: a quarter of the sequential plans reuse ONE session_interface object for all requests, re-targeted with set_cookie_adapter_and_reload(). non-trivial = >= 3 requests, a live load and a clock advance; distinct = plan hash",
   fault_keys=["file_short_io", "file_eintr", "ticks", "attacks", "browser_closed", "gc"],
   probe_keys=["fixed_unchanged", "renew_skippable", "renew_boundary", "renewed", "moved_server_to_client", "moved_client_to_server", "sessions_reset", "session_cleared", "expired_during_request", "exposed_checked", "reloads_of_reused_object", "on_server_refused", "server_side_saves", "client_side_saves", "network_storage_runs", "concurrent_runs", "thread_switches", "mutex_contended"],
   components=E5C,
   assumptions=["in a third of the multi-browser runs every browser is its own scheduled thread (requests of different browsers, gc and attacker requests interleave at every lock / file operation; the clock then moves only between requests); the network session storage is exercised without connection faults", "a browser presents the cookies it held when the request began (snapshot), as a real HTTP request does",
                "an id a browser merely forgot is still a live bearer token; only cleared/reset/expired ids are treated as ended"],
   category="exploration",
   text="Deterministic simulation of browsers, clock, entropy and disk around the real session stack; a reference model of the documented save policy is compared after every request, including storage location, id freshness and exposed cookies.",
   note="Trusts the reference model of the save policy (DESIGN.md Appendix A) and the cookie-jar semantics of the simulated browsers.",
   technique="deterministic simulation (simulated browsers/cookie jars, clock, entropy, disk faults) with a reference model checked after every request",
   design_ref="DESIGN.md s4 C06, s3 E5"),
 "C10": dict(repo_probes=['cache_over_ip.l1_hit_up_to_date', 'cache_over_ip.l1_hit_refreshed', 'cache_over_ip.l1_hit_gone_on_server', 'messenger.reconnect_and_retry'], engine="E4 cache-net", src="e4_cache_net", variants=["asan"], level="exploration",
   seconds={"quick": 50, "thorough": 800},
   rule="case = 1..2 real cache servers (1..2 I/O threads), 2..3 client nodes (cache_over_ip with no L1 / unlimited L1 / L1 of 1..4 entries, 2 threads each = per-thread connections) on the simulated network (segmentation, channel capacity 1 B..64 KiB), 5..65 operations store/fetch/rise/clear/stats/clock-advance over 1..4 binary keys (incl. 0x7f, control bytes, 70-byte key), "
        "values 0..100 KB incl. NUL bytes, 0..40 triggers incl. the empty name. Mode seq (50%): one operation at a time in plan order by any client thread, every result (value, trigger set, deadline, stats, per-server key counts by the documented hash) must equal the single-copy model. "
        "Mode conc (30%): all client threads run freely, the history must be linearizable against the single-copy model. Mode fault (20%): connection resets after n transferred bytes, server crash+restart (state lost), client clock skew: an operation may throw or a fetch may miss, but a hit must never return a value that was replaced, invalidated or lost before the fetch began. "
        "Added in round 2: partition faults (the link between one client node and one server is cut - established connections reset, connects refused - and healed a few operations later; half of them start at a rise/clear of the isolated node); one store in six repeats an earlier store exactly (same key, bytes, triggers, absolute deadline); keys and trigger names with NUL bytes (known finding nul-name-in-key-or-trigger); with several servers the linearizability check gives every rise/clear one linearization point per server. non-trivial = run with a fetch hit or a concurrent history; distinct = trace hash",
   fault_keys=["connection_resets", "server_restarts", "partitions", "connects_refused_by_partition", "ops_failed", "short_reads", "short_writes", "ticks", "resets_seen"],
   probe_keys=["mode_seq", "mode_conc", "mode_fault", "fetch_hit", "distribution_checks", "stores_refused_empty_trigger", "overlapping_pairs", "lin_inconclusive", "lin_broadcasts_split_per_server", "plans_with_nul_in_names", "stats_multi_server_not_atomic"],
   components=E4C,
   assumptions=["empty keys are outside the protocol's domain (the server rejects key_len == 0 by design) and are not generated; a store carrying an empty trigger name is refused by the wire format: the model then expects the key to be gone",
                "stats() over several servers is read server by server and is not checked as an atomic snapshot", "servers run without a size limit so that the single-copy model is exact; L1 limits are exercised (1..4 entries)"],
   category="exploration",
   text="Deterministic simulation of cache servers and L1 clients on a simulated network: sequential histories against a single-copy model, concurrent histories by linearizability, and a fault mode (resets, server restart, clock skew) with a never-stale oracle.",
   note="Trusts the single-copy model, the linearizability checker and the simulated network semantics.",
   technique="deterministic simulation: real cache servers/clients as groups of scheduled threads on a simulated network with fault injection; single-copy model + linearizability checker",
   design_ref="DESIGN.md s4 C10, s3 E4"),
}

ENGINES = [
 {"name": "E4 cache-net", "path": "harness/e4_cache_net.cpp", "serves_properties": ["C10"], "kind_free_text": "real tcp_cache_service + cache_over_ip nodes on simulated network/clock/scheduler with resets, restarts, skew"},
 {"name": "E5 session", "path": "harness/e5_session.cpp", "serves_properties": ["C05", "C06"], "kind_free_text": "real session stack with simulated browsers, attackers, clock, entropy and disk"},
 {"name": "E1 wire", "path": "harness/e1_wire.cpp", "serves_properties": ["C01", "C02", "C03", "C12"], "kind_free_text": "real cppcms::service with http/scgi/fastcgi front-ends on simulated sockets, clock and scheduler; simulated peers"},
 {"name": "E6 loop", "path": "harness/e6_loop.cpp", "serves_properties": ["C17"], "kind_free_text": "real io_service/reactors/timers/stream_socket/thread_pool on simulated descriptors, clock and scheduler"},
 {"name": "E7 crashfs", "path": "harness/e7_crashfs.cpp", "serves_properties": ["C18"], "kind_free_text": "real session_file_storage over the simulated disk; crash states enumerated from the write journal"},
 {"name": "E3 cache-conc", "path": "harness/e3_cache_conc.cpp", "serves_properties": ["C09"], "kind_free_text": "real threads on the real cache under the seeded scheduler; TSan/ASan + linearizability checker"},
 {"name": "E2 cache-seq", "path": "harness/e2_cache_seq.cpp", "serves_properties": ["C07", "C08"], "kind_free_text": "real cache back-ends + cache_interface vs sequential model under simulated clock (sim/simk)"},
]
