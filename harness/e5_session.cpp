// E5 "session": the session stack (session_interface, session_pool, session_cookies / session_sid / session_dual,
// hmac and aes encryptors, memory and file storage) with simulated browsers (cookie jars), attackers, clock, entropy
// and disk (C05, C06).
#include <cppcms/session_interface.h>
#include <openssl/hmac.h>
#include <openssl/evp.h>
#include <thread>
#include <cppcms/session_pool.h>
#include <cppcms/service.h>
#include <cppcms/capi/session.h>
#include <cppcms/session_storage.h>
#include <cppcms/session_api.h>
#include <cppcms/http_cookie.h>
#include <cppcms/json.h>
#include <cppcms/cppcms_error.h>
#include "session_memory_storage.h"
#include "session_posix_file_storage.h"
#include "session_tcp_storage.h"
#include "tcp_cache_server.h"
#include "base_cache.h"
#include <thread>
#include <memory>
#include "../sim/runner.h"
#include "wire_proto.h"

namespace {
using cppcms::session_interface;

const char *PREFIX = "sess";

// ---------------------------------------------------------------- browser cookie jar
struct Jar : cppcms::session_interface_cookie_adapter {
	struct C { std::string value; int64_t expires = -1; /* -1: until the browser is closed */ };
	std::map<std::string,C> jar; std::vector<std::string> log;
	std::map<std::string,std::string> request_cookies; bool in_request = false;   // what the browser sent with the current request (fixed for its duration)
	void begin_request(){ expire(); request_cookies.clear(); for(auto &kv:jar) request_cookies[kv.first] = kv.second.value; in_request = true; }
	static int64_t now(){ return simk::now_us()/1000000; }
	void expire(){ for(auto it=jar.begin();it!=jar.end();){ if(it->second.expires >= 0 && it->second.expires < now()) it = jar.erase(it); else ++it; } }
	void set_cookie(cppcms::http::cookie const &c) override {
		std::string v = c.value();
		bool del = (c.max_age_defined() && c.max_age() == 0) || (!c.max_age_defined() && c.expires_defined() && (int64_t)c.expires() < now());
		if(del || v.empty()){ jar.erase(c.name()); log.push_back("del " + c.name()); return; }
		C e; e.value = v; if(c.max_age_defined()) e.expires = now() + c.max_age(); else if(c.expires_defined()) e.expires = c.expires(); else e.expires = -1;
		jar[c.name()] = e; log.push_back("set " + c.name());
	}
	std::string get_session_cookie(std::string const &name) override { if(in_request){ auto it = request_cookies.find(name); return it == request_cookies.end() ? std::string() : it->second; } expire(); auto it = jar.find(name); return it == jar.end() ? std::string() : it->second.value; }
	std::set<std::string> get_cookie_names() override { std::set<std::string> r; if(in_request){ for(auto &kv:request_cookies) r.insert(kv.first); return r; } expire(); for(auto &kv:jar) r.insert(kv.first); return r; }
	void close_browser(){ for(auto it=jar.begin();it!=jar.end();){ if(it->second.expires < 0) it = jar.erase(it); else ++it; } }
};

// ---------------------------------------------------------------- storage spy: which ids reach the storage
// fault budget of the storage operation in progress (network storage): the client retries once, so an operation may meet at most one connection reset -
// one that was injected while the connection was idle and is noticed now counts just as one injected while the operation runs
int g_op_depth = 0, g_op_budget = 0; bool g_op_mutating = false;   // g_op_mutating: inside save()/remove() - a reset behind a (partly) sent request of those would let the server execute it twice, the first copy later (at-least-once)
struct OpScope { OpScope(){ if(g_op_depth++ == 0) g_op_budget = simk::unconsumed_resets() ? 0 : 1; } ~OpScope(){ g_op_depth--; } };
bool may_inject_reset(){ if(simk::unconsumed_resets()) return false; if(g_op_depth > 0 && g_op_mutating) return false; if(g_op_depth > 0){ if(g_op_budget <= 0) return false; g_op_budget = 0; } return true; }
struct SpyStorage : cppcms::sessions::session_storage {
	booster::shared_ptr<cppcms::sessions::session_storage> inner; std::vector<std::string> *bad; std::set<std::string> *live; uint64_t *calls;
	static bool wellformed(const std::string &s){ if(s.size() != 32) return false; for(char c:s) if(!((c >= '0' && c <= '9') || (c >= 'a' && c <= 'f'))) return false; return true; }
	void note(const std::string &sid){ simk::TsanIgnore ign; (*calls)++; if(!wellformed(sid)) bad->push_back(sid); }
	struct Mut { Mut(){ g_op_mutating = true; } ~Mut(){ g_op_mutating = false; } };
	void save(std::string const &sid,time_t timeout,std::string const &in) override { OpScope os; Mut mu; note(sid); inner->save(sid,timeout,in); simk::TsanIgnore ign; live->insert(sid); }
	bool load(std::string const &sid,time_t &timeout,std::string &out) override { OpScope os; note(sid); return inner->load(sid,timeout,out); }
	void remove(std::string const &sid) override { OpScope os; Mut mu; note(sid); inner->remove(sid); simk::TsanIgnore ign; live->erase(sid); }
	bool is_blocking() override { return inner->is_blocking(); }
};
// a plug-in storage of the simplest kind the interface allows (session_pool::storage(), session.server.storage = external): it keeps the row and reports its
// deadline - enforcing the deadline is not asked of a storage (cppcms/session_storage.h), the framework has to do it
struct PlainStorage : cppcms::sessions::session_storage { std::map<std::string,std::pair<time_t,std::string>> rows; std::mutex m;
	void save(std::string const &sid,time_t timeout,std::string const &in) override { std::lock_guard<std::mutex> g(m); rows[sid] = std::make_pair(timeout,in); }
	bool load(std::string const &sid,time_t &timeout,std::string &out) override { std::lock_guard<std::mutex> g(m); auto p = rows.find(sid); if(p == rows.end()) return false; timeout = p->second.first; out = p->second.second; return true; }
	void remove(std::string const &sid) override { std::lock_guard<std::mutex> g(m); rows.erase(sid); }
	bool is_blocking() override { return false; } };
struct PlainFactory : cppcms::sessions::session_storage_factory { booster::shared_ptr<PlainStorage> st{new PlainStorage}; booster::shared_ptr<cppcms::sessions::session_storage> get() override { return st; } bool requires_gc() override { return false; } void gc_job() override {} };
struct SpyFactory : cppcms::sessions::session_storage_factory {
	std::unique_ptr<cppcms::sessions::session_storage_factory> inner; booster::shared_ptr<SpyStorage> spy;
	booster::shared_ptr<cppcms::sessions::session_storage> get() override { return spy; }
	bool requires_gc() override { return inner->requires_gc(); }
	void gc_job() override { inner->gc_job(); }
};

// ---------------------------------------------------------------- model of one browser's session
struct MEntry { std::string value; bool exposed = false; bool operator==(const MEntry &o) const { return value == o.value && exposed == o.exposed; } };
typedef std::map<std::string,MEntry> MData;
struct MSession {
	bool exists = false; MData data; int64_t deadline_lo = 0, deadline_hi = 0;   // live for sure while now <= lo, dead for sure when now > hi
	std::string where;      // "client" | "server"
	std::string sid;        // server id (without the I prefix) when where == server
};

int mode_of(const std::string &s){ return s == "fixed" ? 0 : s == "renew" ? 1 : 2; }   // session_interface::fixed/renew/browser

struct E5 : Engine {
	bool fork_per_run(const J &plan) override { return plan.gets("prop") == "C06" && plan.gets("storage") == "network" && plan.gets("location") != "client"; }   // a storage server with its own threads
	// ------------------------------------------------------------ generation
	J generate(uint64_t seed,const std::string &prop,bool thorough) override {
		simk::Rng r; r.seed(seed);
		J p = J::obj(); p["engine"] = "E5"; p["prop"] = prop; p["fault_seed"] = (unsigned long long)(r.next() >> 8); p["sched_seed"] = (unsigned long long)(r.next() >> 8);
		static const char *encs[] = {"hmac","hmac-md5","hmac-sha1","hmac-sha224","hmac-sha256","hmac-sha384","hmac-sha512","aes","aes128","aes192","aes256","split-sha1","split-sha256"};
		if(prop == "C05"){
			if(r.below(4) == 0){ p["key_file"] = 1; if(r.below(2)) p["key_file_short"] = 2 * (int)r.below(16); }
			p["enc"] = encs[r.below(13)]; p["key_seed"] = (int)r.below(1000); p["key_case"] = (int)r.below(3); p["long_keys"] = (int)(r.below(6) == 0); p["grouping_locale"] = (int)(r.below(5) == 0); p["timeout"] = 10 + (int)r.below(3000);
			if(r.below(6) == 0){ J uf = J::arr(); int n = 1 + (int)r.below(3); for(int k=0;k<n;k++) uf.push((int)r.below(r.below(2) ? 4 : 30)); p["urandom_fail"] = uf; }   // no entropy: open("/dev/urandom") fails at these calls (descriptor exhaustion)
			p["strategy"] = (int)r.below(3); p["pct_depth"] = 1 + (int)r.below(3); p["pct_len"] = 20 + (int)r.below(400);
			if(r.below(4) == 0) p["reuse"] = 1;   // one long-lived session_interface re-targeted with set_cookie_adapter_and_reload(): what an accepted cookie loaded must be gone when the next one is rejected
			if(r.below(3) == 0){ p["p_file_short"] = 50 + (int)r.below(600); p["p_file_eintr"] = r.below(2) ? (int)r.below(200) : 0; }   // the entropy source delivers fewer bytes than asked for / is interrupted (legal for /dev/urandom): IVs must still be random
#if defined(VERIF_TSAN_VARIANT)
			bool race = true;    // the TSan build runs only the scenario that has threads in it
#else
			bool race = r.below(25) == 0;
#endif
			if(race){ p["poolrace"] = 2 + (int)r.below(3); p["len"] = (int)r.below(300); p["urandom_fail"] = J::arr(); return p; }   // a fresh session_pool used by several worker threads at once: first use of the encryptor factory included
			J ops = J::arr(); int n = 3 + r.below(thorough ? 40 : 16);
			for(int i=0;i<n;i++){ J o = J::obj(); unsigned x = r.below(100);
				if(x < 30){ o["op"] = "save"; unsigned y = r.below(10); o["len"] = (int)(y < 5 ? r.below(64) : y < 9 ? r.below(2000) : r.below(thorough ? 65000 : 20000)); o["fill"] = (int)r.below(3); o["age"] = r.below(4) == 0 ? (int)(1 + r.below(50)) : -1; if(r.below(40) == 0) o["age"] = 2147483647; }
				else if(x < 50){ o["op"] = "load"; }
				else if(x < 62){ o["op"] = "tick"; unsigned y = r.below(10); o["s"] = y < 6 ? (int)r.below(20) : y < 9 ? (int)r.below(4000) : (int)r.below(100000000); if(y == 9 && r.below(3) == 0) o["s"] = (long long)(2147483000LL + (long long)r.below(2000000000u) * (long long)(1 + r.below(3))); }   /* also distances that do not fit into 32 bits (68 years and more) */
				else { o["op"] = "attack"; static const char *kinds[] = {"flip","flip","truncate","extend","swap_blocks","splice","other_key","other_algo","prefix","random","replay_old","b64_noncanon","empty_cipher","tag_guess","tag_guess","tag_guess"}; o["kind"] = kinds[r.below(16)]; o["pos"] = (long long)r.below(1000000); o["n"] = (int)(1 + r.below(40)); o["a"] = (int)r.below(8); o["b"] = (int)r.below(8); }
				ops.push(o); }
			p["ops"] = ops; p["flip_base"] = (long long)(runner_idx >= 0 ? runner_idx : 0);
			return p;
		}
		// C06
		static const char *locs[] = {"client","server","both"}; static const char *exps[] = {"fixed","renew","browser"}; static const char *stors[] = {"memory","files","memory","files","network"}; /* "plain": see PlainStorage */
		p["location"] = locs[r.below(3)]; p["expire"] = exps[r.below(3)]; p["storage"] = r.below(7) == 0 ? "plain" : stors[r.below(5)]; p["enc"] = encs[r.below(13)]; p["key_seed"] = (int)r.below(1000); p["key_case"] = (int)r.below(3); p["long_keys"] = (int)(r.below(6) == 0); p["grouping_locale"] = (int)(r.below(5) == 0);
		p["timeout"] = 5 + (int)r.below(r.below(2) ? 40 : 4000); p["client_size_limit"] = (int)(r.below(2) ? 30 + r.below(200) : 2048); p["remove_unknown"] = (int)r.below(2);
		p["p_file_short"] = r.below(4) == 0 ? (int)r.below(300) : 0; p["p_file_eintr"] = r.below(4) == 0 ? (int)r.below(100) : 0;
		bool net_faults = p.gets("storage") == "network" && r.below(2);   // resets of the storage connection, at most one per request (sequential plans only)
		if(p.gets("storage") == "network" && r.below(2)) p["net_servers"] = 2;
		if(p.gets("storage") == "network" && r.below(2)){ static const int caps[] = {7,16,33,40,64,200,1000}; p["chan_cap"] = caps[r.below(7)]; p["p_short_io"] = r.below(2) ? (int)r.below(300) : 0; }   /* narrow storage connections: a reply reaches the client in pieces, so that a reset can fall between its header and the end of its payload */
		int nb = 1 + r.below(3); p["browsers"] = nb; p["conc"] = (int)(nb > 1 && r.below(3) == 0); p["reuse"] = (int)(!p.geti("conc") && r.below(4) == 0);   /* reuse: one long-lived session_interface re-targeted to each request with set_cookie_adapter_and_reload() */ p["strategy"] = (int)r.below(3); p["pct_depth"] = 1 + (int)r.below(3); p["pct_len"] = 50 + (int)r.below(2000);
		// capi: the sessions are driven through the C API (cppcms/capi/session.h), the way other languages use them
		if(r.below(10) == 0){ p["capi"] = 1; p["location"] = r.below(2) ? "client" : "server"; p["timeout"] = 1000 + (int)r.below(100000); J cr = J::arr(); int nr = 2 + r.below(7);
			for(int i=0;i<nr;i++){ J q = J::arr(); int no = r.below(6); for(int k=0;k<no;k++){ J o = J::obj(); static const char *ops[] = {"set","set","get","len","bin","is_set","erase","expose","hide","clear","reset","keys","len","get"}; static const char *keys[] = {"a","b","user","never"}; o["op"] = ops[r.below(14)]; o["k"] = keys[r.below(4)]; o["len"] = (int)r.below(40); q.push(o); } cr.push(q); } p["creqs"] = cr; { J sp = J::arr(); for(int i=1;i<nr;i++) if(r.below(4) == 0) sp.push(i); p["cspoil"] = sp; } }
		// twin: several concurrent requests of ONE browser (tabs / parallel asynchronous calls presenting the same session cookie) plus gc, all scheduled threads
		if(r.below(8) == 0){ p["twin"] = 1; p["location"] = "server"; static const char *ts[] = {"files","files","files","memory","network"}; p["storage"] = ts[r.below(5)]; p["flock"] = (int)r.below(2); p["tabs"] = 2 + (int)r.below(2); p["timeout"] = 1000 + (int)r.below(100000); if(r.below(4) == 0){ p["procs"] = 2; p["storage"] = "files"; }   /* procs 2: two worker processes (two cppcms::service objects whose session pools configure the file storage themselves, session.server.shared at its default) share the session directory */
			J tr = J::arr(); int nt = 2 + r.below(6); for(int i=0;i<nt;i++){ J q = J::obj(); q["tab"] = (int)r.below(3); q["len"] = (int)(r.below(3) == 0 ? r.below(3000) : r.below(40)); q["ro"] = (int)(r.below(4) == 0); tr.push(q); } p["treqs"] = tr; p["gcs"] = (int)r.below(3); }
		J reqs = J::arr(); int n = 2 + r.below(thorough ? 30 : 12);
		for(int i=0;i<n;i++){ J q = J::obj(); unsigned x = r.below(100);
			if(x < 12){ q["kind"] = "tick"; unsigned y = r.below(10); int to = (int)p.geti("timeout"); q["s"] = y < 4 ? (int)r.below(to/10+2) : y < 7 ? (int)r.below(to) : y < 9 ? to + (int)r.below(3) - 1 : (int)r.below(10*to); }
			else if(x < 16){ q["kind"] = "gc"; }
			else if(x < 20){ q["kind"] = "close_browser"; q["b"] = (int)r.below(nb); }
			else if(x < 30){ q["kind"] = "attack"; q["b"] = (int)r.below(nb); static const char *kinds[] = {"old_sid","pathlike","upper_hex","short_sid","junk_c","other_browser_sid","long_sid","empty","non_hex"}; q["what"] = kinds[r.below(9)]; }
			else { q["kind"] = "request"; q["b"] = (int)r.below(nb); J ops = J::arr(); int no = r.below(7);
				for(int k=0;k<no;k++){ J o = J::obj(); unsigned y = r.below(100); static const char *keys[] = {"a","b","user","k3","_x"};
					if(y < 35){ o["op"] = "set"; o["k"] = keys[r.below(5)]; o["len"] = (int)(r.below(4) == 0 ? r.below(400) : r.below(20)); }
					else if(y < 45){ o["op"] = "erase"; o["k"] = keys[r.below(5)]; }
					else if(y < 50){ o["op"] = "clear"; }
					else if(y < 60){ o["op"] = "expose"; o["k"] = keys[r.below(4)]; }
					else if(y < 66){ o["op"] = "hide"; o["k"] = keys[r.below(4)]; }
					else if(y < 74){ o["op"] = "age"; o["t"] = (int)(1 + r.below(r.below(2) ? 30 : 20000)); if(r.below(25) == 0) o["t"] = 480000000 + (int)r.below(200000000); }   /* "remember me" for 15..21 years: the deadline lies beyond January 2038 */
					else if(y < 78){ o["op"] = "default_age"; }
					else if(y < 85){ o["op"] = "expiration"; o["h"] = (int)r.below(3); }
					else if(y < 88){ o["op"] = "default_expiration"; }
					else if(y < 94){ o["op"] = "on_server"; o["v"] = (int)r.below(2); }
					else { o["op"] = "reset"; }
					ops.push(o); }
				q["ops"] = ops; q["tick_inside"] = r.below(8) == 0 ? (int)(1 + r.below(5)) : 0; if(net_faults && r.below(3) == 0) q["net_reset"] = (int)(r.below(3) == 0 ? 0 : 1 + r.below(600)); }
			reqs.push(q); }
		if(r.below(12) == 0){   /* a long-lived session kept alive by reading only: its own age is well above session.timeout, the requests that follow change nothing and are spaced inside that age, the clock ends up far beyond login + timeout */
			reqs = J::arr(); int to = (int)p.geti("timeout"); int age = 2*to + (int)r.below(3*to + 5);
			{ J q = J::obj(); q["kind"] = "request"; q["b"] = 0; J ops = J::arr(); { J o = J::obj(); o["op"] = "set"; o["k"] = "user"; o["len"] = 8; ops.push(o); } { J o = J::obj(); o["op"] = "age"; o["t"] = age; ops.push(o); } if(r.below(2)){ J o = J::obj(); o["op"] = "expiration"; o["h"] = (int)r.below(3); ops.push(o); } q["ops"] = ops; q["tick_inside"] = 0; reqs.push(q); }
			int nr = 3 + r.below(6); for(int i=0;i<nr;i++){ { J t = J::obj(); t["kind"] = "tick"; t["s"] = 1 + (int)r.below((unsigned)std::max(2,(int)(age*0.7))); reqs.push(t); } J q = J::obj(); q["kind"] = "request"; q["b"] = 0; q["ops"] = J::arr(); q["tick_inside"] = 0; reqs.push(q); } }
		p["reqs"] = reqs;
		return p;
	}

	static std::string hexkey(int seed,int bytes){ std::string k; simk::Rng r; r.seed(777 + seed); static const char *hx = "0123456789abcdef"; for(int i=0;i<bytes*2;i++) k += hx[r.below(16)]; return k; }
	static std::string norm_enc(const std::string &e){ static const char *known[] = {"hmac","hmac-md5","hmac-sha1","hmac-sha224","hmac-sha256","hmac-sha384","hmac-sha512","aes","aes128","aes192","aes256","split-sha1","split-sha256"}; for(auto k:known) if(e == k) return e; return "hmac"; }   // anything else is reached only by minimisation
	static int &long_keys(){ static int c = 0; return c; }
	static int &key_case(){ static int c = 0; return c; }   /* how the hexadecimal key text is spelt in the configuration: 0 lower case, 1 upper case, 2 mixed - the key material is the same */
	static std::string spell(std::string h){ int c = key_case(); for(size_t i=0;i<h.size();i++) if(h[i] >= 'a' && h[i] <= 'f' && (c == 1 || (c == 2 && (i * 7 + h.size()) % 3 == 0))) h[i] = (char)(h[i] - 'a' + 'A'); return h; }
	static void configure_enc(cppcms::json::value &v,const std::string &enc_in,int key_seed){
		std::string enc = norm_enc(enc_in);
		if(enc.compare(0,5,"split") == 0){ v["session"]["client"]["hmac"] = enc.substr(6); v["session"]["client"]["hmac_key"] = spell(hexkey(key_seed,long_keys() ? 65 + key_seed % 90 : 24)); v["session"]["client"]["cbc"] = "aes"; v["session"]["client"]["cbc_key"] = spell(hexkey(key_seed+1,16)); }
		else { v["session"]["client"]["encryptor"] = enc; int kb = enc.compare(0,3,"aes") == 0 ? (enc == "aes192" ? 24 : enc == "aes256" ? 32 : 16) : (long_keys() ? 65 + key_seed % 90 : 20); v["session"]["client"]["key"] = spell(hexkey(key_seed,kb)); }   /* long_keys: MAC keys longer than the hash's block (64 / 128 bytes): HMAC hashes such a key down first */
	}
	static cppcms::json::value settings(const J &plan,const std::string &location){
		cppcms::json::value v; v["session"]["location"] = location; v["session"]["expire"] = plan.gets("expire","fixed") == "renew" ? "renew" : plan.gets("expire","fixed") == "browser" ? "browser" : "fixed";
		v["session"]["timeout"] = (int)std::max<int64_t>(1,std::min<int64_t>(plan.geti("timeout",100),100000000)); v["session"]["cookies"]["prefix"] = PREFIX; v["session"]["client_size_limit"] = (int)std::max<int64_t>(0,plan.geti("client_size_limit",2048));
		v["session"]["cookies"]["remove_unknown_cookies"] = (bool)plan.geti("remove_unknown",1); v["session"]["gc"] = 0;
		key_case() = (int)(((plan.geti("key_case") % 3) + 3) % 3); long_keys() = plan.geti("long_keys") != 0; configure_enc(v,plan.gets("enc","hmac"),(int)plan.geti("key_seed")); v["session"]["server"]["storage"] = "memory";
		return v;
	}
	static std::string my_b64url_decode(const std::string &s,bool &ok){ std::string r; uint32_t acc = 0; int bits = 0; ok = true; for(char c:s){ int v = c >= 'A' && c <= 'Z' ? c-'A' : c >= 'a' && c <= 'z' ? c-'a'+26 : c >= '0' && c <= '9' ? c-'0'+52 : c == '-' ? 62 : c == '_' ? 63 : -1; if(v < 0){ ok = false; return r; } acc = (acc << 6) | v; bits += 6; if(bits >= 8){ bits -= 8; r += (char)((acc >> bits) & 0xff); } } return r; }

	// ---- independent recomputation of the cookie's authentication tag with OpenSSL, from the configured key material and the documented construction:
	// hmac-X: payload || HMAC-X(key,payload); aes*: ct || HMAC-SHA1(k2[0..20),ct) with k2 = HMAC-SHA256(key,"\x01") (single key of the CBC key's size); split: ct || HMAC-X(hmac_key,ct)
	static std::string unhex(const std::string &h){ std::string r; for(size_t i=0;i+1<h.size();i+=2) r += (char)strtoul(h.substr(i,2).c_str(),nullptr,16); return r; }
	static std::string ossl_hmac(const EVP_MD *md,const std::string &key,const std::string &data){ unsigned char out[EVP_MAX_MD_SIZE]; unsigned n = 0; HMAC(md,key.data(),(int)key.size(),(const unsigned char*)data.data(),data.size(),out,&n); return std::string((char*)out,n); }
	static const EVP_MD *md_by_name(const std::string &n){ return n == "md5" ? EVP_md5() : n == "sha1" ? EVP_sha1() : n == "sha224" ? EVP_sha224() : n == "sha256" ? EVP_sha256() : n == "sha384" ? EVP_sha384() : n == "sha512" ? EVP_sha512() : nullptr; }
	static std::string independent_tag_check(const std::string &enc,int key_seed,const std::string &cookie_bytes){
		const EVP_MD *md = nullptr; std::string mac_key;
		if(enc.compare(0,5,"split") == 0){ md = md_by_name(enc.substr(6)); mac_key = unhex(hexkey(key_seed,long_keys() ? 65 + key_seed % 90 : 24)); }
		else if(enc.compare(0,3,"aes") == 0){ int kb = enc == "aes192" ? 24 : enc == "aes256" ? 32 : 16; std::string key = unhex(hexkey(key_seed,kb)); mac_key = ossl_hmac(EVP_sha256(),key,std::string("\x01",1)).substr(0,20); md = EVP_sha1(); }
		else if(enc == "hmac"){ md = EVP_sha1(); mac_key = unhex(hexkey(key_seed,long_keys() ? 65 + key_seed % 90 : 20)); }
		else if(enc.compare(0,5,"hmac-") == 0){ md = md_by_name(enc.substr(5)); mac_key = unhex(hexkey(key_seed,long_keys() ? 65 + key_seed % 90 : 20)); }
		if(!md) return "";
		size_t ds = (size_t)EVP_MD_size(md); if(cookie_bytes.size() < ds) return "cookie shorter than its authentication tag";
		std::string body = cookie_bytes.substr(0,cookie_bytes.size()-ds), tag = cookie_bytes.substr(cookie_bytes.size()-ds);
		if(ossl_hmac(md,mac_key,body) != tag) return "the tag of the issued cookie is not the HMAC of its body under the key derived from the configured key material (" + enc + ")";
		return ""; }

	// ============================================================ C05
	struct Issued { std::string cookie, cipher; MData data; int64_t deadline; };
	void run_c05(const J &plan,RunResult &res,std::map<std::string,int64_t> &cnt){
		cppcms::json::value v = settings(plan,"client"); v["session"]["expire"] = "fixed";
		std::string enc = norm_enc(plan.gets("enc","hmac"));
		/* key material kept in files (session.client.key_file / hmac_key_file / cbc_key_file, the way cppcms_make_key delivers it), optionally with a read that comes back short: the node must refuse to start, never run with a part of the key */
		cppcms::json::value v_inline = v;   /* the other servers of the attacks (another key, another algorithm) are configured with inline keys of their own: a copy taken after the key files were put in would read THIS server's files (a *_file entry wins over the inline key) */
		std::vector<std::string> key_files; struct Unlinker { std::vector<std::string> *v; ~Unlinker(){ for(auto &f:*v) ::unlink(f.c_str()); } } unlinker{&key_files};
		if(plan.geti("key_file")){ for(const char *nm:{"key","hmac_key","cbc_key"}){ std::string txt = v.get(std::string("session.client.") + nm,std::string()); if(txt.empty()) continue; std::string path = runner::g_scratch + "/keyfile." + nm; { std::ofstream kf(path.c_str()); kf << txt; } key_files.push_back(path);
				cppcms::json::value none; v["session"]["client"][nm] = none; v["session"]["client"][std::string(nm) + "_file"] = path; } cnt["key_file_runs"]++; }
		std::unique_ptr<cppcms::session_pool> pool_holder;
		try { pool_holder.reset(new cppcms::session_pool(v)); pool_holder->init(); }
		catch(std::exception const &e){ if(simk::stats().fread_short){ cnt["start_refused_after_short_key_read"]++; return; } throw; }
		cppcms::session_pool &pool = *pool_holder;
		if(simk::stats().fread_short) cnt["started_after_short_key_read"]++;
		if(plan.has("poolrace")){
			// worker threads of one process share the pool: each serves its own browser (own jar, own session_interface); the only shared object is the code under test
			int nt = (int)std::max<int64_t>(2,std::min<int64_t>(plan.geti("poolrace"),6)); size_t len = (size_t)std::max<int64_t>(0,std::min<int64_t>(plan.geti("len"),5000));
			struct W { Jar jar; std::string payload, cookie, cipher, err; bool back = false; }; std::vector<W> ws((size_t)nt); for(int i=0;i<nt;i++) ws[i].payload = wire::gen_bytes(900 + i,len,1) + "#" + std::to_string(i);
			std::vector<std::thread> thr; bool go = false;
			for(int i=0;i<nt;i++) thr.emplace_back([&,i]{ W &w = ws[(size_t)i]; simk::block([&]{ return go; },-1,"wait-go");
				try { { w.jar.begin_request(); session_interface s(pool,w.jar); s.load(); s.set("d",w.payload); s.save(); }
					w.cookie = w.jar.jar.count(PREFIX) ? w.jar.jar[PREFIX].value : "";
					{ w.jar.begin_request(); session_interface s(pool,w.jar); w.back = s.load() && s.is_set("d") && s.get("d") == w.payload; s.save(); } }
				catch(std::exception const &e){ simk::TsanIgnore ign; w.err = e.what(); } });
			go = true; for(auto &t:thr) t.join(); cnt["pool_race_threads"] += nt; cnt["loads_accepted"]++; cnt["loads_rejected"]++;   // counted non-trivial
			for(int i=0;i<nt && res.ok;i++){ W &w = ws[(size_t)i]; std::string where = "worker " + std::to_string(i);
				if(!w.err.empty()){ res.fail("session-use-threw",where + ": " + w.err); break; }
				if(w.cookie.empty() || w.cookie[0] != 'C'){ res.fail("no-cookie-issued",where + ": save did not set a client-side session cookie"); break; }
				bool ok; std::string raw = my_b64url_decode(w.cookie.substr(1),ok); std::string why = independent_tag_check(enc,(int)plan.geti("key_seed"),raw);
				if(!why.empty()){ res.fail("cookie-not-authenticated-with-the-configured-key",where + ": " + why); break; }
				if(!w.back){ res.fail("save-load-mismatch",where + ": the session saved through a pool shared with " + std::to_string(nt-1) + " other workers did not load back"); break; } }
			return; }
		// a second server with other key material / another algorithm (cross-key transplant)
		cppcms::json::value v2 = v_inline; configure_enc(v2,enc,(int)plan.geti("key_seed") + 17); cppcms::session_pool pool_otherkey(v2); pool_otherkey.init();
		cppcms::json::value v3 = v; { cppcms::json::value c; v3["session"]["client"] = c; configure_enc(v3,enc.compare(0,4,"hmac") == 0 ? "aes" : "hmac-sha256",(int)plan.geti("key_seed")); } cppcms::session_pool pool_otheralgo(v3); pool_otheralgo.init();
		bool encrypting = enc.compare(0,3,"aes") == 0 || enc.compare(0,5,"split") == 0;
		Jar jar; std::vector<Issued> issued; std::string last_payload; int64_t timeout = v.get<int>("session.timeout");
		const J &ops = plan.get("ops"); std::set<std::string> seen_blocks;
		Jar nobody; std::unique_ptr<session_interface> shared_s; if(plan.geti("reuse")) shared_s.reset(new session_interface(pool,nobody));
		auto now = []{ return simk::now_us()/1000000; };
		auto save_with = [&](cppcms::session_pool &pl,Jar &j,const std::string &payload,int age)->Issued { session_interface s(pl,j); s.load(); s.clear(); s.set("d",payload); if(age > 0) s.age(age); else s.default_age();   /* clear() keeps the age loaded from the previous session */ s.reset_session(); s.save(); Issued is; is.cookie = j.jar.count(PREFIX) ? j.jar[PREFIX].value : ""; bool ok; is.cipher = is.cookie.empty() ? "" : my_b64url_decode(is.cookie.substr(1),ok); is.data["d"].value = payload; if(age > 0) is.data["_t"].value = std::to_string(age); is.deadline = now() + (age > 0 ? age : timeout); return is; };
		for(size_t i=0;i<ops.size() && res.ok;i++){ const J &o = ops.a[i]; std::string op = o.gets("op"); std::string where = "op#" + std::to_string(i) + " " + op; uint64_t uf_op = simk::stats().urandom_open_failed; try {
			if(op == "save"){ std::string payload = wire::gen_bytes(i*31 + 5,(size_t)std::max<int64_t>(0,std::min<int64_t>(o.geti("len"),70000)),(int)o.geti("fill")); if(o.geti("fill") == 2 && !last_payload.empty()) payload = last_payload;   // identical payload twice
				uint64_t uf0 = simk::stats().urandom_open_failed; Issued is; bool save_failed = false;
				try { is = save_with(pool,jar,payload,(int)o.geti("age",-1)); } catch(std::exception const &e){ if(simk::stats().urandom_open_failed == uf0){ res.fail("save-threw",where + ": save() threw " + e.what()); break; } save_failed = true; }
				if(save_failed){ cnt["saves_refused_without_entropy"]++; jar.jar.erase(PREFIX); continue; }   // without entropy refusing is right; what must never happen is a cookie made with a predictable IV (checked below like any other)
				cnt["saves"]++;
				if(is.cookie.empty() || is.cookie[0] != 'C'){ res.fail("no-cookie-issued",where + ": save did not set a client-side session cookie"); break; }
				{ std::string why = independent_tag_check(enc,(int)plan.geti("key_seed"),is.cipher); cnt["tags_recomputed_independently"]++; if(!why.empty()){ res.fail("cookie-not-authenticated-with-the-configured-key",where + ": " + why); break; } }
				if(encrypting){
					for(auto &old:issued) if(old.cookie == is.cookie){ res.fail("deterministic-ciphertext",where + ": two saves produced the same cookie"); }
					if(payload.size() >= 16 && is.cipher.find(payload.substr(0,16)) != std::string::npos) res.fail("plaintext-in-cookie",where + ": the cookie contains the payload in clear");
					for(size_t b=16;b+16<=is.cipher.size();b+=16){ std::string blk = is.cipher.substr(b,16); if(!seen_blocks.insert(blk).second){ cnt["repeated_cipher_block"]++; if(payload.size() < 1000 || o.geti("fill") == 2) res.fail("repeated-cipher-block",where + ": a 16-byte cipher block repeats across cookies (equal payloads are recognisable)"); break; } }
				}
				issued.push_back(is); last_payload = payload;
				// save-then-load is the identity
				{ uint64_t uf1 = simk::stats().urandom_open_failed; session_interface s(pool,jar); bool threw = false; try { s.load(); } catch(std::exception const &){ if(simk::stats().urandom_open_failed == uf1) throw; threw = true; cnt["loads_refused_without_entropy"]++; }
				  if(!threw && (!s.is_set("d") || s.get("d") != payload)) res.fail("save-load-mismatch",where + ": loading right after saving did not return the payload (" + std::to_string(payload.size()) + " bytes)"); } }
			else if(op == "tick"){ simk::advance_us(std::max<int64_t>(0,std::min<int64_t>(o.geti("s"),20000000000LL))*1000000); cnt["ticks"]++; if(o.geti("s") > 2147483647LL) cnt["ticks_beyond_32_bits"]++; }
			else if(op == "load" || op == "attack"){
				std::string presented;
				if(op == "attack" && !issued.empty()){ cnt["attacks"]++;
					std::string kind = o.gets("kind"); const Issued &A = issued[(size_t)(o.geti("a") % (int64_t)issued.size())], &B = issued[(size_t)(o.geti("b") % (int64_t)issued.size())]; std::string c = A.cookie; size_t pos = c.size() > 1 ? 1 + (size_t)(o.geti("pos") % (int64_t)(c.size()-1)) : 0; int n = (int)std::max<int64_t>(1,std::min<int64_t>(o.geti("n",1),64));
					static const char *al = "ABCDEFGHIJKLMNOPQRSTUVWXYZabcdefghijklmnopqrstuvwxyz0123456789-_";
					if(kind == "flip"){ // one bit of the base64url symbol (enumerated over runs through flip_base)
						size_t at = c.size() > 1 ? 1 + (size_t)((plan.geti("flip_base") * 7 + o.geti("pos")) % (int64_t)(c.size()-1)) : 0; const char *q = strchr(al,c[at]); int vv = q ? (int)(q - al) : 0; vv ^= 1 << (o.geti("n") % 6); c[at] = al[vv & 63]; }
					else if(kind == "truncate") c.resize(pos);
					else if(kind == "extend") c += std::string((size_t)n,al[o.geti("pos") % 64]);
					else if(kind == "swap_blocks"){ bool ok; std::string ci = my_b64url_decode(c.substr(1),ok); if(ci.size() >= 48){ size_t b1 = 16 * ((o.geti("pos") / 7) % (ci.size()/16)), b2 = 16 * ((o.geti("pos") / 131) % (ci.size()/16)); for(int k=0;k<16;k++) std::swap(ci[b1+k],ci[b2+k]); } c = "C" + b64(ci); }
					else if(kind == "splice"){ c = A.cookie.substr(0,pos) + (B.cookie.size() > pos ? B.cookie.substr(pos) : ""); }
					else if(kind == "other_key" || kind == "other_algo"){ Jar j2; Issued x = save_with(kind == "other_key" ? pool_otherkey : pool_otheralgo,j2,"forged-by-another-server",-1); c = x.cookie; }
					else if(kind == "prefix"){ c[0] = 'I'; }
					else if(kind == "random"){ c = "C" + wire::gen_bytes(o.geti("pos"),(size_t)n*3,1); }
					else if(kind == "replay_old"){ c = A.cookie; }
					else if(kind == "b64_noncanon"){ c += al[o.geti("pos") % 64]; c.resize(c.size()-1); if(!c.empty()){ const char *q = strchr(al,c.back()); int vv = q ? (int)(q-al) : 0; c.back() = al[(vv ^ 1) & 63]; } }
					else if(kind == "empty_cipher"){ c = "C"; }
					else if(kind == "tag_guess"){   // the body stays, 2..8 bytes of the authentication tag (the last 16 bytes belong to it for every algorithm) are replaced by guesses
						bool ok; std::string ci = my_b64url_decode(c.substr(1),ok); if(ok && ci.size() >= 16){ simk::Rng g; g.seed((uint64_t)o.geti("pos") * 2654435761u + (uint64_t)i); int m = 2 + (int)g.below(7); for(int k=0;k<m;k++){ size_t at = ci.size() - 1 - g.below(16); ci[at] = (char)(ci[at] ^ (char)(1 + g.below(255))); } c = "C" + b64(ci); } }
					Jar::C e; e.value = c; e.expires = -1; jar.jar[PREFIX] = e; }
				presented = jar.get_session_cookie(PREFIX);
				bool dok = false; std::string pc = presented.size() > 1 ? my_b64url_decode(presented.substr(1),dok) : std::string();
				const Issued *match = nullptr; if(!presented.empty() && presented[0] == 'C' && dok) for(auto &is:issued) if(is.cipher == pc) match = &is;
				std::unique_ptr<session_interface> fresh; if(!shared_s) fresh.reset(new session_interface(pool,jar)); session_interface &s = shared_s ? *shared_s : *fresh;   // reuse: one long-lived object re-targeted to each request's cookies
				bool loaded = false; uint64_t ufl = simk::stats().urandom_open_failed; bool load_failed = false;
				try { loaded = shared_s ? s.set_cookie_adapter_and_reload(jar) : s.load(); if(shared_s) cnt["reloads_of_reused_object"]++; } catch(std::exception const &e){ if(simk::stats().urandom_open_failed == ufl){ res.fail("load-threw",where + ": load() threw " + e.what() + " for cookie " + wire::esc(presented.substr(0,60))); break; } load_failed = true; }
				if(load_failed){ cnt["loads_refused_without_entropy"]++; continue; }   // an encryptor cannot be set up without entropy: the request fails, nothing was accepted
				cnt["loads"]++;
				bool want = match && match->deadline >= now();
				if(loaded && !want){ res.fail(match ? "expired-session-accepted" : "forged-session-accepted",where + ": load() accepted a cookie that " + (match ? "expired " + std::to_string((long)(now() - match->deadline)) + " s ago" : "this server never issued") + " (" + std::to_string(presented.size()) + " chars, attack " + o.gets("kind") + ")"); break; }
				bool identical = false; for(auto &is:issued) if(is.cookie == presented) identical = true;
				if(!loaded && want && !identical){ cnt["noncanonical_encoding_rejected"]++; want = false; }   // another spelling of an issued cipher text: the stricter answer is fine too
				if(!loaded && want){ res.fail("valid-session-rejected",where + ": load() rejected a cookie issued by this server that is still valid"); break; }
				if(loaded && !identical) cnt["noncanonical_encoding_accepted"]++;
				if(loaded){ cnt["loads_accepted"]++; MData got; for(auto &k:std::vector<std::string>{"d","_t"}) if(s.is_set(k)) got[k].value = s.get(k); if(!(got == match->data)){ res.fail("wrong-session-data",where + ": accepted cookie returned different data than was saved with it"); break; } }
				else { cnt["loads_rejected"]++; if(s.is_set("d") || !s.key_set().empty()) res.fail("data-after-rejection",where + ": rejected session still exposes data" + (shared_s ? " (session_interface object re-used from the previous request)" : ""));
					if(!presented.empty() && jar.jar.count(PREFIX) && jar.jar[PREFIX].value == presented && presented[0] == 'C'){ res.fail("bad-cookie-not-cleared",where + ": the rejected cookie was not cleared from the browser"); break; } }
			}
		} catch(std::exception const &){ if(simk::stats().urandom_open_failed == uf_op) throw; cnt["ops_failed_without_entropy"]++; }   // whatever needs entropy may fail when there is none; nothing was accepted or issued
		}
		// configurations that must be refused
		if(res.ok){ cppcms::json::value b = settings(plan,"client"); cppcms::json::value c; b["session"]["client"] = c; b["session"]["client"]["cbc"] = "aes"; b["session"]["client"]["cbc_key"] = hexkey(1,16); bool threw = false; try { cppcms::session_pool p(b); p.init(); } catch(std::exception const &){ threw = true; } if(!threw) res.fail("weak-config-accepted","CBC encryption without a MAC was accepted"); cnt["config_refusal_checks"]++;
			cppcms::json::value k = settings(plan,"client"); k["session"]["client"]["encryptor"] = "hmac"; k["session"]["client"]["key"] = hexkey(2,8); threw = false; try { cppcms::session_pool p(k); p.init(); Jar j; session_interface s(p,j); s.load(); s.set("x","y"); s.save(); } catch(std::exception const &){ threw = true; } if(!threw) res.fail("weak-config-accepted","an 8-byte HMAC key was accepted");
			/* key material that is missing altogether: no layout may fall back to an empty key (a cookie signed with the empty key would be accepted) */
			struct Miss { const char *what; const char *enc,*cbc,*hmac; bool key,cbc_key,hmac_key; };
			static const Miss miss[] = { {"encryptor hmac without session.client.key","hmac",0,0,false,false,false}, {"encryptor aes without session.client.key","aes",0,0,false,false,false},
				{"hmac=sha1 without session.client.hmac_key",0,0,"sha1",false,false,false}, {"cbc=aes hmac=sha1 with a cbc_key but without session.client.hmac_key",0,"aes","sha1",false,true,false}, {"cbc=aes hmac=sha256 with an hmac_key but without session.client.cbc_key",0,"aes","sha256",false,false,true} };
			for(const Miss &m:miss){ if(!res.ok) break; cppcms::json::value b = settings(plan,"client"); cppcms::json::value c; b["session"]["client"] = c; if(m.enc) b["session"]["client"]["encryptor"] = m.enc; if(m.cbc) b["session"]["client"]["cbc"] = m.cbc; if(m.hmac) b["session"]["client"]["hmac"] = m.hmac;
				if(m.key) b["session"]["client"]["key"] = hexkey(3,16); if(m.cbc_key) b["session"]["client"]["cbc_key"] = hexkey(4,16); if(m.hmac_key) b["session"]["client"]["hmac_key"] = hexkey(5,24);
				threw = false; try { cppcms::session_pool p(b); p.init(); Jar j; session_interface s(p,j); s.load(); s.set("x","y"); s.save(); } catch(std::exception const &){ threw = true; }
				if(!threw) res.fail("weak-config-accepted",std::string("a configuration with missing key material was accepted and a session was issued: ") + m.what); cnt["config_refusal_checks"]++; } }
	}
	static std::string b64(const std::string &in){ static const char *al = "ABCDEFGHIJKLMNOPQRSTUVWXYZabcdefghijklmnopqrstuvwxyz0123456789-_"; std::string o; uint32_t acc = 0; int bits = 0; for(unsigned char c:in){ acc = (acc << 8) | c; bits += 8; while(bits >= 6){ bits -= 6; o += al[(acc >> bits) & 63]; } } if(bits) o += al[(acc << (6-bits)) & 63]; return o; }

	// ============================================================ C06 through the C API
	// One browser, sequential requests, no deadline in reach: what a request finds (key set, values, exposed flags) is exactly what the previous one left,
	// asking for something - also for a key that was never stored - changes nothing, the session cookie is there exactly while the session holds data.
	void run_capi(const J &plan,RunResult &res,std::map<std::string,int64_t> &cnt){
		std::string location = plan.gets("location") == "server" ? "server" : "client"; cnt["capi_runs"]++;
		cppcms::json::value v = settings(plan,location); v["session"]["expire"] = "renew"; if(location == "server"){ v["session"]["server"]["storage"] = "files"; v["session"]["server"]["dir"] = "/simfs/capi-sessions"; simk::fs_mkdir("/simfs/capi-sessions"); }
		std::ostringstream js; v.save(js,cppcms::json::compact);
		struct Pool { cppcms_capi_session_pool *p; Pool() : p(cppcms_capi_session_pool_new()) {} ~Pool(){ cppcms_capi_session_pool_delete(p); } } pool;
		if(!pool.p || cppcms_capi_session_pool_init_from_json(pool.p,js.str().c_str()) != 0){ res.fail("capi-error",std::string("pool init failed: ") + (pool.p ? cppcms_capi_error_message(pool.p) : "no pool")); return; }
		Jar jar; struct MV { std::string value; bool exposed = false; bool operator==(const MV &o) const { return value == o.value && exposed == o.exposed; } }; std::map<std::string,MV> model;
		const J &reqs = plan.get("creqs");
		for(size_t ri=0;ri<reqs.size() && ri<12 && res.ok;ri++){ std::string where = "capi request#" + std::to_string(ri); cnt["requests"]++; cnt["capi_requests"]++;
			struct Sess { cppcms_capi_session *s; Sess() : s(cppcms_capi_session_new()) {} ~Sess(){ cppcms_capi_session_delete(s); } } ss; cppcms_capi_session *s = ss.s;
			auto err = [&](const char *what){ if(cppcms_capi_error(s)){ res.fail("capi-error",where + ": " + what + ": " + cppcms_capi_error_message(s)); return true; } return false; };
			{ const J &sp = plan.get("cspoil"); bool spoil = false; for(size_t q=0;q<sp.size();q++) if((size_t)sp.a[q].as_int() == ri) spoil = true;   /* the browser presents a damaged session cookie: the load rejects it (the library emits its removal) and the same request stores new data */
			  if(spoil && plan.geti("remove_unknown",1) && jar.jar.count(PREFIX) && jar.jar[PREFIX].value.size() > 8){   /* (with remove_unknown_cookies off the exposed cookies of the lost session legitimately stay in the browser: not what this scenario is about) */ std::string &cv = jar.jar[PREFIX].value; size_t mid = cv.size()/2; cv[mid] = cv[mid] == 'A' ? 'B' : 'A'; model.clear(); cnt["capi_spoiled_cookies"]++; } }
			jar.begin_request(); cppcms_capi_session_init(s,pool.p); if(err("init")) break;
			std::string cname = cppcms_capi_session_get_session_cookie_name(s); for(auto &kv:jar.request_cookies){ if(kv.first == cname) cppcms_capi_session_set_session_cookie(s,kv.second.c_str()); else cppcms_capi_session_add_cookie_name(s,kv.first.c_str()); }
			cppcms_capi_session_load(s); if(err("load")) break;
			auto view = [&]{ std::map<std::string,MV> got; for(const char *k = cppcms_capi_session_get_first_key(s);k;k = cppcms_capi_session_get_next_key(s)){ MV m; const char *val = cppcms_capi_session_get(s,k); m.value = val ? val : ""; m.exposed = cppcms_capi_session_get_exposed(s,k) == 1; got[k] = m; } return got; };
			{ std::map<std::string,MV> got = view(); if(err("reading the session")) break; if(!(got == model)){ std::string d; for(auto &kv:got) if(!model.count(kv.first)) d += " +" + kv.first; for(auto &kv:model) if(!got.count(kv.first)) d += " -" + kv.first; else if(!(got[kv.first] == kv.second)) d += " ~" + kv.first; res.fail("session-data-mismatch",where + ": the session found by this request differs from what the previous request left:" + d); break; } if(!model.empty()) cnt["loads_live"]++; }
			const J &ops = reqs.a[ri];
			for(size_t k=0;k<ops.size() && k<8 && res.ok;k++){ const J &o = ops.a[k]; std::string op = o.gets("op"), key = o.gets("k","a"); if(key.empty()) key = "a";
				if(op == "set"){ std::string val = "v" + std::to_string(ri) + "." + std::to_string(k) + std::string((size_t)std::max<int64_t>(0,std::min<int64_t>(o.geti("len"),200)),'x'); cppcms_capi_session_set(s,key.c_str(),val.c_str()); model[key].value = val; }
				else if(op == "get"){ const char *g = cppcms_capi_session_get(s,key.c_str()); if(model.count(key) ? (!g || model[key].value != g) : (g && *g)){ res.fail("session-data-mismatch",where + ": get(" + key + ") returned something else than what is stored"); break; } }
				else if(op == "len"){ int n = cppcms_capi_session_get_binary_len(s,key.c_str()); if(n != (int)(model.count(key) ? model[key].value.size() : 0)){ res.fail("session-data-mismatch",where + ": get_binary_len(" + key + ") = " + std::to_string(n)); break; } cnt["capi_reads_of_missing_keys"] += !model.count(key); }
				else if(op == "bin"){ char buf[512]; int n = cppcms_capi_session_get_binary(s,key.c_str(),buf,sizeof(buf)); if(n != (int)(model.count(key) ? model[key].value.size() : 0) || (n > 0 && model[key].value != std::string(buf,(size_t)n))){ res.fail("session-data-mismatch",where + ": get_binary(" + key + ") differs from what is stored"); break; } cnt["capi_reads_of_missing_keys"] += !model.count(key); }
				else if(op == "is_set"){ if((cppcms_capi_session_is_set(s,key.c_str()) == 1) != (model.count(key) > 0)){ res.fail("session-data-mismatch",where + ": is_set(" + key + ") disagrees with the history"); break; } }
				else if(op == "erase"){ cppcms_capi_session_erase(s,key.c_str()); model.erase(key); }
				else if(op == "expose" || op == "hide"){ if(model.count(key)){ cppcms_capi_session_set_exposed(s,key.c_str(),op == "expose"); model[key].exposed = op == "expose"; } }
				else if(op == "clear"){ cppcms_capi_session_clear(s); model.clear(); }
				else if(op == "reset"){ cppcms_capi_session_reset_session(s); }
				else if(op == "keys"){ std::map<std::string,MV> got = view(); if(!(got == model)){ res.fail("session-data-mismatch",where + ": the key set / values inside the request differ from the operations performed so far"); break; } }
				if(err(op.c_str())) break; }
			if(!res.ok) break;
			// looking at the session - also asking for keys that were never stored - must not have changed it
			{ std::map<std::string,MV> got = view(); if(!(got == model)){ std::string d; for(auto &kv:got) if(!model.count(kv.first)) d += " +" + kv.first; res.fail("session-data-mismatch",where + ": at the end of the request the session holds keys the request never stored:" + d); break; } }
			cppcms_capi_session_save(s); if(err("save")) break;
			for(cppcms_capi_cookie *c = cppcms_capi_session_cookie_first(s);c;c = cppcms_capi_session_cookie_next(s)){ std::string name = cppcms_capi_cookie_name(c), value = cppcms_capi_cookie_value(c); bool del = (cppcms_capi_cookie_max_age_defined(c) == 1 && cppcms_capi_cookie_max_age(c) == 0) || (cppcms_capi_cookie_max_age_defined(c) != 1 && cppcms_capi_cookie_expires_defined(c) == 1 && cppcms_capi_cookie_expires(c) < Jar::now());
				if(del || value.empty()) jar.jar.erase(name); else { Jar::C e; e.value = value; e.expires = cppcms_capi_cookie_max_age_defined(c) == 1 ? Jar::now() + (int64_t)cppcms_capi_cookie_max_age(c) : cppcms_capi_cookie_expires_defined(c) == 1 ? (int64_t)cppcms_capi_cookie_expires(c) : -1; jar.jar[name] = e; } cppcms_capi_cookie_delete(c); }
			if(model.empty() == (jar.jar.count(cname) > 0)){ res.fail(model.empty() ? "session-cookie-for-empty-session" : "session-cookie-missing",where + ": the session " + (model.empty() ? "holds nothing but the browser was given a session cookie" : "holds data but the browser has no session cookie")); break; }
			for(auto &kv:model){ std::string cn = cname + "_" + kv.first; bool there = jar.jar.count(cn) > 0; if(kv.second.exposed && !kv.second.value.empty() && (!there || wire::urldecode(jar.jar[cn].value) != kv.second.value)){ res.fail("exposed-cookie-mismatch",where + ": exposed key '" + kv.first + "' is " + (there ? "stale" : "missing") + " in the browser's cookies"); break; } if(!kv.second.exposed && there){ res.fail("exposed-cookie-mismatch",where + ": key '" + kv.first + "' is not exposed but has a cookie"); break; } }
			simk::advance_us(1000000); cnt["ticks"]++; }
	}

	// ============================================================ C06, concurrent requests of one browser
	// Tabs present the same session cookie at the same time. The storage serialises access per session, so the session behaves as a regular register: a request
	// loads the state written by some request whose save had started before the load ended and that was not surely overwritten (by a save that started after it
	// had completed and completed before the load started). Nothing ends the session here (no clear, no reset, deadlines far away): a load that finds nothing, or a
	// state nobody wrote, or a change of the session id, is a violation. gc runs concurrently and must leave the live session alone.
	void run_twin(const J &plan,RunResult &res,std::map<std::string,int64_t> &cnt,std::vector<cppcms::session_pool *> pools,SpyFactory *spyf,std::set<std::string> &live_sids){
		cppcms::session_pool &pool = *pools[0];
		typedef std::map<std::string,std::string> St; struct Sv { uint64_t st, en; St data; };
		std::vector<Sv> saves; saves.reserve(64); uint64_t ev = 0; cnt["twin_runs"]++;
		Jar j0; j0.begin_request(); St base; { session_interface s(pool,j0); s.load(); s.set("base","b0"); s.save(); base["base"] = "b0"; }
		if(!j0.jar.count(PREFIX) || j0.jar[PREFIX].value.size() != 33 || j0.jar[PREFIX].value[0] != 'I'){ res.fail("session-cookie-missing","twin: no server-side session cookie after the first request"); return; }
		std::string cookie = j0.jar[PREFIX].value; { Sv f; f.st = ++ev; f.en = ++ev; f.data = base; saves.push_back(f); }
		int tabs = (int)std::max<int64_t>(2,std::min<int64_t>(plan.geti("tabs",2),3)); const J &tr = plan.get("treqs");
		auto tab = [&](int me){ Jar jar; jar.jar = j0.jar; cppcms::session_pool &pool = *pools[(size_t)me % pools.size()]; simk::set_node((int)((size_t)me % pools.size()));
			for(size_t ri=0;ri<tr.size() && ri<12 && res.ok;ri++){ const J &q = tr.a[ri]; if((int)(((q.geti("tab") % tabs) + tabs) % tabs) != me) continue;
				std::string where = "twin req#" + std::to_string(ri) + " tab " + std::to_string(me); cnt["requests"]++; cnt["twin_requests"]++;
				jar.begin_request(); session_interface s(pool,jar); bool loaded = false; uint64_t ls,le;
				{ simk::TsanIgnore ign; ls = ++ev; }
				try { loaded = s.load(); } catch(std::exception const &e){ res.fail("load-threw",where + ": load() threw " + e.what()); return; }
				St got; { std::set<std::string> ks = s.key_set(); for(auto &k:ks) got[k] = s.get(k); }
				{ simk::TsanIgnore ign; le = ++ev;
				  if(!loaded || got.empty()){ res.fail("live-session-lost",where + ": load() found no session although nothing ended it (concurrent requests of one browser, " + plan.gets("storage") + (plan.geti("flock") ? ", file locks" : "") + ")"); return; }
				  bool ok = false, overlapped = false; for(size_t i=0;i<saves.size() && !ok;i++){ const Sv &w = saves[i]; if(w.st >= le) continue; bool dead = false; for(size_t k=0;k<saves.size() && !dead;k++){ const Sv &w2 = saves[k]; if(w2.st > w.en && w2.en < ls) dead = true; } if(dead) continue; if(w.en > ls) overlapped = true; if(w.data == got) ok = true; }
				  if(overlapped) cnt["twin_load_overlapping_save"]++;
				  if(!ok){ std::string d; for(auto &kv:got) d += " " + kv.first + "=" + kv.second.substr(0,12) + "(" + std::to_string(kv.second.size()) + ")"; res.fail("session-data-mismatch",where + ": loaded a state that no request could have left there:" + d); return; } }
				if(q.geti("ro")){ try { s.save(); } catch(std::exception const &e){ res.fail("save-threw",where + ": save() threw " + e.what()); return; } }
				else { std::string val = wire::gen_bytes(ri*977+me,(size_t)std::max<int64_t>(0,std::min<int64_t>(q.geti("len"),5000)),1) + "#" + std::to_string(ri); s.set("tab" + std::to_string(me),val); got["tab" + std::to_string(me)] = val;
					size_t idx; { simk::TsanIgnore ign; Sv w; w.st = ++ev; w.en = UINT64_MAX; w.data = got; saves.push_back(w); idx = saves.size()-1; }
					try { s.save(); } catch(std::exception const &e){ res.fail("save-threw",where + ": save() threw " + e.what()); return; }
					{ simk::TsanIgnore ign; saves[idx].en = ++ev; } }
				jar.expire(); if(!jar.jar.count(PREFIX) || jar.jar[PREFIX].value != cookie){ res.fail("session-id-changed",where + ": the session cookie changed although the session was neither new nor reset"); return; }
				if(spyf && !live_sids.count(cookie.substr(1))){ res.fail("session-not-stored",where + ": the live session's id is no longer in the storage"); return; } } };
		std::vector<std::thread> thr; for(int t=0;t<tabs;t++) thr.emplace_back([&,t]{ tab(t); });
		int gcs = (int)std::max<int64_t>(0,std::min<int64_t>(plan.geti("gcs"),4)); if(spyf && gcs) thr.emplace_back([&]{ for(int i=0;i<gcs;i++){ spyf->gc_job(); cnt["gc"]++; simk::yield(); } });
		for(auto &t:thr) t.join();
		if(!res.ok) return;
		// afterwards, sequentially: the session holds the state of a save that no later save surely overwrote
		{ Jar jar; jar.jar = j0.jar; jar.begin_request(); session_interface s(pool,jar); bool loaded = s.load(); St got; { std::set<std::string> ks = s.key_set(); for(auto &k:ks) got[k] = s.get(k); }
		  bool ok = false; for(size_t i=0;i<saves.size() && !ok;i++){ bool dead = false; for(size_t k=0;k<saves.size();k++) if(saves[k].st > saves[i].en) dead = true; if(!dead && saves[i].data == got) ok = true; }
		  if(!loaded || !ok) res.fail(loaded ? "session-data-mismatch" : "live-session-lost","twin: after all concurrent requests the session " + std::string(loaded ? "holds a state that is not the last one saved" : "is gone")); cnt["loads_live"]++; }
	}

	// ============================================================ C06
	void run_c06(const J &plan,RunResult &res,std::map<std::string,int64_t> &cnt){
		std::string location = plan.gets("location","server"); if(location != "client" && location != "both") location = "server";
		cppcms::json::value v = settings(plan,location);
		std::string stor = plan.gets("storage","memory");
		std::vector<std::string> bad_sids; std::set<std::string> live_sids; uint64_t storage_calls = 0;
		std::unique_ptr<cppcms::impl::tcp_cache_service> net_server,net_server2;   // declared before the pool: destroyed after it; net_server2: the second of two session servers (the session id decides which one keeps a session)
		cppcms::session_pool pool(v);
		SpyFactory *spyf = nullptr;
		if(location != "client"){ std::unique_ptr<SpyFactory> f(new SpyFactory);
			if(stor == "files"){ simk::fs_mkdir("/simfs/sessions"); f->inner.reset(new cppcms::sessions::session_file_storage_factory("/simfs/sessions",5,1,plan.geti("flock") != 0)); if(plan.geti("flock")) cnt["file_lock_runs"]++; }
			else if(stor == "network"){
				// a real session storage server (tcp_cache_service with a memory storage behind it) on the simulated network
				booster::shared_ptr<cppcms::sessions::session_storage_factory> backend(new cppcms::sessions::session_memory_storage_factory());
				net_server.reset(new cppcms::impl::tcp_cache_service(booster::intrusive_ptr<cppcms::impl::base_cache>(),backend,1,"127.0.0.1",6101,1000000));
				std::vector<std::string> ips(1,"127.0.0.1"); std::vector<int> ports(1,6101);
				if(plan.geti("net_servers") == 2){ booster::shared_ptr<cppcms::sessions::session_storage_factory> backend2(new cppcms::sessions::session_memory_storage_factory()); net_server2.reset(new cppcms::impl::tcp_cache_service(booster::intrusive_ptr<cppcms::impl::base_cache>(),backend2,1,"127.0.0.1",6102,1000000)); ips.push_back("127.0.0.1"); ports.push_back(6102); cnt["two_session_servers_runs"]++; }
				f->inner.reset(new cppcms::sessions::tcp_factory(ips,ports)); cnt["network_storage_runs"]++; }
			else if(stor == "plain"){ f->inner.reset(new PlainFactory); cnt["plain_plugin_storage_runs"]++; }
			else f->inner.reset(new cppcms::sessions::session_memory_storage_factory());
			f->spy.reset(new SpyStorage); f->spy->inner = f->inner->get(); f->spy->bad = &bad_sids; f->spy->live = &live_sids; f->spy->calls = &storage_calls; spyf = f.get();
			pool.storage(std::unique_ptr<cppcms::sessions::session_storage_factory>(f.release())); }
		pool.init();
		// network storage, sequential plans: at most ONE reset of a storage connection per request - either while it is idle (before the request) or after a chosen
		// number of bytes of the request's storage traffic. The client's single reconnect-and-retry has to mask it (every storage operation is idempotent), so the
		// oracle stays as strict as without faults. (Two resets inside one operation legitimately make it throw: a first version that spaced resets by bytes only did that.)
		struct NetResetter : simk::Actor { uint64_t at = 0; bool armed = false; int64_t *fired; bool enabled() override { return armed && simk::stats().bytes_rx + simk::stats().bytes_tx >= at; }
			void step() override { armed = false; if(may_inject_reset() && simk::reset_accepted_stream(simk::fault_rng().next())) (*fired)++; } const char *name() override { return "net-resetter"; } } net_resetter;
		net_resetter.fired = &cnt["storage_connection_resets"]; if(net_server) simk::add_actor(&net_resetter);
		struct ActorGuard { ~ActorGuard(){ simk::clear_actors(); } } actor_guard;   // the actor lives on this stack frame
		int nb = (int)std::max<int64_t>(1,std::min<int64_t>(plan.geti("browsers",1),4));
		std::vector<Jar> jars(nb); std::vector<MSession> ms(nb); std::set<std::string> all_sids; std::vector<std::string> dead_sids; std::vector<std::pair<size_t,size_t>> sid_entropy_at;   /* (read-out, offset) of the entropy every identifier was made of */
		int def_timeout = v.get<int>("session.timeout"); int def_how = mode_of(v.get<std::string>("session.expire")); size_t climit = (size_t)v.get<int>("session.client_size_limit");
		auto now = []{ return simk::now_us()/1000000; };
		const J &reqs = plan.get("reqs");
		if(plan.geti("twin") && plan.geti("procs") == 2){
			// two processes: the storage is NOT injected - each service's session pool builds it from the configuration, as a deployment does
			cppcms::json::value sv = v; sv["service"]["api"] = "http"; sv["service"]["port"] = 8080; sv["service"]["disable_global_exit_handling"] = true; sv["service"]["worker_threads"] = 2; sv["localization"]["locales"][0] = "C"; sv["localization"]["backend"] = "std"; sv["logging"]["stderr"] = false;
			sv["session"]["location"] = "server"; sv["session"]["server"]["storage"] = "files"; sv["session"]["server"]["dir"] = "/simfs/sessions"; simk::fs_mkdir("/simfs/sessions");
			std::unique_ptr<cppcms::service> sa(new cppcms::service(sv)), sb(new cppcms::service(sv)); sa->session_pool().init(); sb->session_pool().init(); cnt["twin_two_process_runs"]++;
			run_twin(plan,res,cnt,{&sa->session_pool(),&sb->session_pool()},nullptr,live_sids); return; }
		if(plan.geti("twin")){ run_twin(plan,res,cnt,{&pool},spyf,live_sids); if(res.ok && !bad_sids.empty()) res.fail("malformed-id-reached-storage","identifier not of the issued form was used to address the storage"); cnt["storage_calls"] = (int64_t)storage_calls; return; }
		bool conc = plan.geti("conc") && nb > 1; int in_flight = 0;
		bool reuse = plan.geti("reuse") && !conc; Jar nobody; Jar attacker_jar;   /* outlives the request: the re-used session_interface keeps pointing at it until it is re-targeted */ std::unique_ptr<session_interface> shared_s; if(reuse) shared_s.reset(new session_interface(pool,nobody));
		// me == -2: one thread runs everything in plan order; otherwise browser `me` runs its own requests and me == -1 (the
		// environment) runs clock advances, gc and attacker requests - all concurrently under the simulated scheduler
		auto worker = [&](int me){
		for(size_t ri=0;ri<reqs.size() && res.ok;ri++){ const J &q = reqs.a[ri]; std::string kind = q.gets("kind"); int b = (int)(((q.geti("b") % nb) + nb) % nb); if(me != -2){ bool browser_op = kind == "request" || kind == "close_browser"; if(browser_op ? b != me : me != -1) continue; }
			std::string where = "step#" + std::to_string(ri) + " " + kind + " browser " + std::to_string(b);
			if(kind == "tick"){ if(conc) simk::block([&]{ return in_flight == 0; },-1,"tick-between-requests");   // the clock moves between requests here; clock steps inside a request are exercised in sequential mode (tick_inside)
				simk::advance_us(std::max<int64_t>(0,std::min<int64_t>(q.geti("s"),100000000))*1000000); cnt["ticks"]++; continue; }
			if(kind == "gc"){ if(spyf){ spyf->gc_job(); cnt["gc"]++; } continue; }
			if(kind == "close_browser"){ jars[b].close_browser(); cnt["browser_closed"]++; continue; }
			Jar &jar = jars[b]; MSession &m = ms[b]; for(auto &j:jars) j.in_request = false;
			if(kind == "attack"){ cnt["attacks"]++; std::string what = q.gets("what"); std::string c;
				if(what == "old_sid") c = dead_sids.empty() ? "I" + std::string(32,'0') : "I" + dead_sids[ri % dead_sids.size()];
				else if(what == "pathlike") c = "I../../../../simfs/sessions/x"; else if(what == "upper_hex") c = "I" + std::string(32,'A'); else if(what == "short_sid") c = "I0123456789abcdef"; else if(what == "junk_c") c = "Cnot-a-valid-cookie~~";
				else if(what == "other_browser_sid"){ int o2 = (b+1) % nb; c = ms[o2].exists && ms[o2].where == "server" && nb > 1 ? "I" + ms[o2].sid : "I" + std::string(32,'1'); if(nb > 1 && ms[o2].exists && ms[o2].where == "server") continue;   // presenting a live id IS that session (bearer token): not an attack the server can detect
				} else if(what == "long_sid") c = "I" + std::string(33,'a'); else if(what == "empty") c = ""; else c = "I" + std::string(31,'a') + "g";
				Jar &attacker = attacker_jar; attacker.jar.clear(); attacker.log.clear(); attacker.request_cookies.clear(); attacker.in_request = false; if(!c.empty()){ Jar::C e; e.value = c; attacker.jar[PREFIX] = e; } attacker.begin_request();
				std::unique_ptr<session_interface> afresh; if(!reuse) afresh.reset(new session_interface(pool,attacker)); session_interface &s = reuse ? *shared_s : *afresh;   // reuse mode: the attacker's request is served by the same long-lived object as the browsers'
				bool loaded = false; try { loaded = reuse ? s.set_cookie_adapter_and_reload(attacker) : s.load(); } catch(std::exception const &e){ res.fail("load-threw",where + ": load() threw " + e.what()); break; }
				if(loaded || !s.key_set().empty()){ res.fail("foreign-session-loaded",where + ": attacker cookie " + wire::esc(c.substr(0,40)) + " (" + what + ") loaded a session"); break; }
				s.save(); continue; }
			// ---------------- an ordinary request
			cnt["requests"]++;
			struct Flight { int &n; Flight(int &x) : n(x) { n++; } ~Flight(){ n--; } } flight(in_flight);
			jar.begin_request();
			net_resetter.armed = false;   // a reset armed for the previous request that never fired must not add to this request's
			if(net_server && !conc && q.has("net_reset")){ int64_t nr = q.geti("net_reset"); if(nr <= 0){ if(may_inject_reset() && simk::reset_accepted_stream(simk::fault_rng().next())) cnt["storage_connection_resets"]++; } /* never a second reset while the client has not yet noticed the first: two failures in one operation legitimately make it throw */ else { net_resetter.at = simk::stats().bytes_rx + simk::stats().bytes_tx + (uint64_t)std::min<int64_t>(nr,100000); net_resetter.armed = true; } }
			std::string presented = jar.get_session_cookie(PREFIX);
			std::unique_ptr<session_interface> fresh; if(!reuse) fresh.reset(new session_interface(pool,jar)); session_interface &s = reuse ? *shared_s : *fresh; bool loaded = false;
			try { loaded = reuse ? s.set_cookie_adapter_and_reload(jar) : s.load(); if(reuse) cnt["reloads_of_reused_object"]++; } catch(std::exception const &e){ res.fail("load-threw",where + ": load() threw " + e.what()); break; }
			// what must be there
			bool cookie_there = !presented.empty();
			bool must_live = m.exists && cookie_there && now() <= m.deadline_lo, must_dead = !m.exists || !cookie_there || now() > m.deadline_hi;
			if(loaded && must_dead){ res.fail("ended-session-loaded",where + ": load() returned a session although " + (!m.exists ? "it had been cleared" : !cookie_there ? "the browser holds no session cookie" : "its deadline passed " + std::to_string((long)(now()-m.deadline_hi)) + " s ago")); break; }
			if(!loaded && must_live){ res.fail("live-session-lost",where + ": load() found no session although the browser's session is live for another " + std::to_string((long)(m.deadline_lo-now())) + " s (stored " + m.where + ")"); break; }
			if(!loaded){ if(m.exists && m.where == "server" && now() > m.deadline_hi) dead_sids.push_back(m.sid);   // ended by its deadline (an id the browser merely forgot is still a live bearer token)
				m = MSession(); cnt["loads_empty"]++; } else { cnt["loads_live"]++; if(now() > m.deadline_lo) m.deadline_lo = m.deadline_hi; }
			MData cur = m.data;   // the model's view of data_
			// loaded view must equal the model
			{ MData got; for(auto &kv:cur){ if(s.is_set(kv.first)){ got[kv.first].value = s.get(kv.first); got[kv.first].exposed = s.is_exposed(kv.first); } }
			  std::set<std::string> ks = s.key_set(); for(auto &k:ks) if(!cur.count(k)){ res.fail("session-data-mismatch",where + ": the session contains key '" + k + "' that the previous request did not leave there"); }
			  if(res.ok && !(got == cur)){ std::string d; for(auto &kv:cur) if(!got.count(kv.first) || !(got[kv.first] == kv.second)) d += " " + kv.first; res.fail("session-data-mismatch",where + ": loaded session differs from what the previous request saved, keys:" + d); }
			  if(!res.ok) break; }
			int how = cur.count("_h") ? atoi(cur["_h"].value.c_str()) : def_how; int tval = cur.count("_t") ? atoi(cur["_t"].value.c_str()) : def_timeout; bool on_server = cur.count("_s") ? atoi(cur["_s"].value.c_str()) : false;
			if(s.age() != tval || s.expiration() != how || s.on_server() != on_server){ res.fail("session-meta-mismatch",where + ": age/expiration/on_server = " + std::to_string(s.age()) + "/" + std::to_string(s.expiration()) + "/" + std::to_string(s.on_server()) + " expected " + std::to_string(tval) + "/" + std::to_string(how) + "/" + std::to_string(on_server)); break; }
			MData before = cur; bool reset = false;
			const J &ops = q.get("ops");
			for(size_t k=0;k<ops.size();k++){ const J &o = ops.a[k]; std::string op = o.gets("op"); std::string key = o.gets("k","a");
				if(op == "set"){ std::string val = wire::gen_bytes(ri*100+k,(size_t)std::max<int64_t>(0,std::min<int64_t>(o.geti("len"),5000)),1) + "#" + std::to_string(b); s.set(key,val); cur[key].value = val; }
				else if(op == "erase"){ s.erase(key); cur.erase(key); }
				else if(op == "clear"){ s.clear(); cur.clear(); }
				else if(op == "expose"){ s.expose(key); cur[key].exposed = true; }
				else if(op == "hide"){ s.hide(key); cur[key].exposed = false; }
				else if(op == "age"){ int t = (int)std::max<int64_t>(1,std::min<int64_t>(o.geti("t",10),1000000000)); s.age(t); tval = t; cur["_t"].value = std::to_string(t); }
				else if(op == "default_age"){ s.default_age(); tval = def_timeout; cur.erase("_t"); }
				else if(op == "expiration"){ int h = (int)(((o.geti("h") % 3)+3)%3); s.expiration(h); how = h; cur["_h"].value = std::to_string(h); }
				else if(op == "default_expiration"){ s.default_expiration(); how = def_how; cur.erase("_h"); }
				else if(op == "on_server"){ bool x = o.geti("v"); s.on_server(x); on_server = x; cur["_s"].value = std::to_string((int)x); }
				else if(op == "reset"){ s.reset_session(); reset = true; }
			}
			if(q.geti("tick_inside") > 0 && !conc) simk::advance_us(q.geti("tick_inside")*1000000);
			bool want_server = location == "server" || (location == "both" && (on_server || false));
			{ bool refused = false;
			  try { s.save(); }
			  catch(cppcms::cppcms_error const &e){ if(location == "client" && on_server) refused = true; else { res.fail("save-threw",where + ": save() threw " + e.what()); break; } }
			  catch(std::exception const &e){ res.fail("save-threw",where + ": save() threw " + e.what()); break; }
			  if(refused){ // documented: client-only storage cannot keep an on_server session; the request failed, nothing was stored: forget this browser
				cnt["on_server_refused"]++; jar.jar.clear(); m = MSession(); continue; } }
			// ---------------- model of save()
			int64_t t = now(); std::string old_sid = m.exists && m.where == "server" ? m.sid : "";
			if(cur.empty()){
				if(m.exists || cookie_there) cnt["session_cleared"]++;
				if(m.exists && m.where == "server"){ dead_sids.push_back(m.sid); if(live_sids.count(m.sid)){ res.fail("cleared-session-still-stored",where + ": the session was cleared but its id is still in the storage"); break; } }
				m = MSession(); }
			else {
				bool is_new = (before.empty() || !m.exists) || reset; bool changed = !(cur == before);
				int64_t lo,hi; bool maybe_not_written = false;
				if(is_new){ lo = hi = t + tval; cnt[reset ? "sessions_reset" : "sessions_created"]++; }
				else if(!changed){
					if(how == 0){ lo = m.deadline_lo; hi = m.deadline_hi; cnt["fixed_unchanged"]++; maybe_not_written = true; }
					else { int64_t elapsed_lo = t + tval - m.deadline_hi, elapsed_hi = t + tval - m.deadline_lo; // renewal may be skipped only while less than 10% of the period has elapsed
						if(elapsed_lo >= (int64_t)(tval * 0.1 + 0.999)) { lo = hi = t + tval; cnt["renewed"]++; } else if(elapsed_hi < (int64_t)(tval * 0.1)) { lo = std::min(m.deadline_lo,t + (int64_t)tval); hi = std::max(m.deadline_hi,t + (int64_t)tval); cnt["renew_skippable"]++; maybe_not_written = true; } else { lo = std::min(m.deadline_lo,t + (int64_t)tval); hi = std::max(m.deadline_hi,t + (int64_t)tval); cnt["renew_boundary"]++; maybe_not_written = true; } } }
				else { if(how == 0){ lo = m.deadline_lo; hi = m.deadline_hi; } else { lo = hi = t + tval; } cnt["sessions_updated"]++; }
				jar.expire();
				if(hi < t || (lo < t && !jar.jar.count(PREFIX))){ // the deadline passed while the request was being served (fixed expiration): the session has ended. (lo < t <= hi: the model does not know which of the two
					// deadlines the server chose when a renewal was optional; the browser's cookie, whose life time the server derived from the deadline it did choose, decides)
					cnt["expired_during_request"]++; if(jar.jar.count(PREFIX) && jar.jar[PREFIX].expires < 0 && how != 2){ /* a browser-lifetime cookie for a dead session is harmless: the server-side deadline decides */ }
					if(m.where == "server" && !m.sid.empty()) dead_sids.push_back(m.sid); m = MSession(); jar.jar.erase(PREFIX); continue; }
				std::string sc = jar.jar.count(PREFIX) ? jar.jar[PREFIX].value : "";
				if(sc.empty()){ res.fail("session-cookie-missing",where + ": a non-empty session was saved but the browser holds no session cookie"); break; }
				// where was it stored?
				std::string ar_guess; size_t approx = 0; for(auto &kv:cur) approx += 4 + kv.first.size() + kv.second.value.size();
				bool srv = location == "server" || (location == "both" && (on_server || approx > climit));
				// maybe_not_written: nothing (or possibly nothing) was written, then the session stays where it was
				if(maybe_not_written && m.exists && (sc[0] == 'I') == (m.where == "server")) srv = m.where == "server";
				if((sc[0] == 'I') != srv){ res.fail("wrong-storage-location",where + ": session cookie starts with '" + sc.substr(0,1) + "' but the session must be kept on the " + (srv ? "server" : "client") + " (on_server=" + std::to_string(on_server) + ", size " + std::to_string(approx) + ", limit " + std::to_string(climit) + ")"); break; }
				MSession n; n.exists = true; n.data = cur; n.deadline_lo = lo; n.deadline_hi = hi; n.where = srv ? "server" : "client";
				if(srv){ n.sid = sc.substr(1); if(!SpyStorage::wellformed(n.sid)){ res.fail("malformed-session-id-issued",where + ": issued id " + wire::esc(sc)); break; }
					if(is_new && !old_sid.empty() && n.sid == old_sid){ res.fail("session-id-not-renewed",where + ": a reset / new session kept the old identifier"); break; }
					if(is_new && all_sids.count(n.sid)){ res.fail("session-id-reused",where + ": a fresh session got an identifier seen before"); break; }
					// unpredictable = made of what the entropy source supplied: the 16 bytes of a fresh identifier are a contiguous piece of what ONE open of /dev/urandom was
					// served (however its reads were cut short or interrupted; an implementation may read ahead for several identifiers), and no two identifiers share a byte of it
					if(is_new && !all_sids.count(n.sid)){ simk::TsanIgnore ign; std::string raw = unhex(n.sid); const std::vector<std::string> &opens = simk::entropy_by_open(); size_t at = std::string::npos, off = 0; bool shared = false;
						for(size_t u=opens.size();u-->0 && at == std::string::npos;){ for(size_t f = opens[u].find(raw);f != std::string::npos;f = opens[u].find(raw,f+1)){ bool ov = false; for(auto &pr:sid_entropy_at) if(pr.first == u && f < pr.second + 16 && pr.second < f + 16) ov = true; if(ov){ shared = true; continue; } at = u; off = f; break; } }
						if(at == std::string::npos){ res.fail("session-id-not-from-entropy-source",where + ": the fresh identifier " + n.sid + (shared ? " is made of entropy bytes that an earlier identifier had used" : " is not a run of 16 bytes that a read-out of /dev/urandom supplied") + " (" + std::to_string(opens.size()) + " read-outs so far)"); break; }
						sid_entropy_at.push_back(std::make_pair(at,off)); cnt["sids_traced_to_entropy"]++; }
					if(!live_sids.count(n.sid)){ res.fail("session-not-stored",where + ": the issued id is not in the storage"); break; } all_sids.insert(n.sid); cnt["server_side_saves"]++; }
				else cnt["client_side_saves"]++;
				if(!old_sid.empty() && old_sid != n.sid){ dead_sids.push_back(old_sid); if(live_sids.count(old_sid)){ res.fail(reset ? "old-id-usable-after-reset" : "old-id-left-in-storage",where + ": the previous identifier " + old_sid.substr(0,8) + ".. is still in the storage after the session " + (reset ? "was reset" : srv ? "got a new id" : "moved to the client")); break; } if(!srv) cnt["moved_server_to_client"]++; }
				if(m.exists && m.where == "client" && srv) cnt["moved_client_to_server"]++;
				m = n;
			}
			// exposed values appear in / disappear from cookies in step with the session
			for(auto &kv:m.data){ std::string cn = std::string(PREFIX) + "_" + kv.first; bool there = jar.jar.count(cn); if(kv.second.exposed && kv.second.value.empty()){ if(there){ res.fail("exposed-cookie-mismatch",where + ": exposed key '" + kv.first + "' has an empty value but a cookie is kept"); break; } continue; } if(kv.second.exposed && (!there || wire::urldecode(jar.jar[cn].value) != kv.second.value)){ res.fail("exposed-cookie-mismatch",where + ": exposed key '" + kv.first + "' is " + (there ? "stale" : "missing") + " in the browser's cookies"); break; } if(!kv.second.exposed && there && before.count(kv.first) && before[kv.first].exposed){ res.fail("exposed-cookie-mismatch",where + ": key '" + kv.first + "' is no longer exposed but its cookie remains"); break; } if(kv.second.exposed) cnt["exposed_checked"]++; }
			if(res.ok) for(auto &kv:before) if(kv.second.exposed && !m.data.count(kv.first) && jar.jar.count(std::string(PREFIX) + "_" + kv.first)){ res.fail("exposed-cookie-mismatch",where + ": exposed key '" + kv.first + "' was removed from the session but its cookie remains"); break; }
		}
		};
		if(!conc) worker(-2);
		else { cnt["concurrent_runs"]++; std::vector<std::thread> thr; for(int b2=0;b2<nb;b2++) thr.emplace_back([&,b2]{ worker(b2); }); thr.emplace_back([&]{ worker(-1); }); for(auto &t:thr) t.join(); }
		if(res.ok && !bad_sids.empty()) res.fail("malformed-id-reached-storage","identifier not of the issued form was used to address the storage: " + wire::esc(bad_sids[0].substr(0,60)));
		cnt["storage_calls"] = (int64_t)storage_calls;
	}

	RunResult run(const J &plan) override {
		RunResult res; std::map<std::string,int64_t> cnt;
		simk::Params sp; sp.fault_seed = (uint64_t)plan.geti("fault_seed",1); sp.sched_seed = (uint64_t)plan.geti("sched_seed",1); sp.tick_us = 0;
		sp.strategy = (int)(((plan.geti("strategy") % 3) + 3) % 3); sp.pct_depth = (int)std::max<int64_t>(1,std::min<int64_t>(plan.geti("pct_depth",2),8)); sp.pct_len = (int)std::max<int64_t>(1,plan.geti("pct_len",500)); sp.text_trace = plan.geti("text_trace");
		sp.p_file_short = (unsigned)std::max<int64_t>(0,std::min<int64_t>(plan.geti("p_file_short"),900)); sp.p_file_eintr = (unsigned)std::max<int64_t>(0,std::min<int64_t>(plan.geti("p_file_eintr"),500)); sp.file_short_min = 2;
		if(plan.has("chan_cap")) sp.default_chan_cap = (size_t)std::max<int64_t>(1,std::min<int64_t>(plan.geti("chan_cap"),1<<20)); sp.p_short_read = sp.p_short_write = (unsigned)std::max<int64_t>(0,std::min<int64_t>(plan.geti("p_short_io"),900));
		if(plan.geti("key_file") && plan.has("key_file_short")){ sp.stdio_track = "keyfile."; sp.fread_short_bytes = (size_t)std::max<int64_t>(0,std::min<int64_t>(plan.geti("key_file_short"),200)); }
		{ const J &uf = plan.get("urandom_fail"); for(size_t k=0;k<uf.size() && k<8;k++) sp.urandom_fail_at.push_back((uint32_t)std::max<int64_t>(0,std::min<int64_t>(uf.a[k].as_int(),100000))); }
		/* an application that has installed a process-wide locale which groups digits (std::locale::global(std::locale("en_US.UTF-8")) does): numbers cppcms writes into cookies and session data must not change with it */
		struct Grouping : std::numpunct<char> { char do_thousands_sep() const override { return ','; } std::string do_grouping() const override { return "\3"; } };
		struct LocaleGuard { bool on; LocaleGuard(bool o) : on(o) { if(on) std::locale::global(std::locale(std::locale::classic(),new Grouping)); } ~LocaleGuard(){ if(on) std::locale::global(std::locale::classic()); } } locale_guard(plan.geti("grouping_locale") != 0);
		simk::begin(sp);
		try { if(plan.gets("prop") == "C05") run_c05(plan,res,cnt); else if(plan.geti("capi")) run_capi(plan,res,cnt); else run_c06(plan,res,cnt); }
		catch(std::exception const &e){ res.fail("harness-or-library-exception",std::string("unexpected exception: ") + e.what()); }
		res.hash = simk::trace_hash() ^ runner::fnv(std::to_string(cnt["loads_accepted"]) + ":" + std::to_string(cnt["loads_live"]) + ":" + std::to_string(cnt["loads_empty"]));
		res.counters["file_short_io"] = (long long)simk::stats().file_short; res.counters["file_eintr"] = (long long)simk::stats().file_eintr; res.counters["clock_jumps"] = (long long)simk::stats().clock_jumps; res.counters["thread_switches"] = (long long)simk::stats().switches; res.counters["mutex_contended"] = (long long)simk::stats().mutex_contended;
		res.counters["sim_seconds"] = (long long)((simk::now_us() - sp.start_time_s*1000000LL)/1000000);
		simk::end();
		for(auto &kv:cnt) res.counters[kv.first] = (long long)kv.second;
		bool nontrivial = plan.gets("prop") == "C05" ? (cnt["loads_accepted"] > 0 && cnt["loads_rejected"] > 0) : (cnt["loads_live"] > 0 && cnt["requests"] >= 3 && cnt["ticks"] > 0);
		if(nontrivial){ std::string shape = plan.str(); res.nt = runner::fnv(shape); if(!res.nt) res.nt = 1; }
		return res;
	}
};
}
int main(int argc,char **argv){ E5 e; return runner::main_impl(argc,argv,e,"E5"); }
