// E4 "cache-net": real tcp_cache_service servers, real cache_over_ip clients (with / without L1) on the simulated
// network, clock and scheduler (C10).
// Mode seq: operations are issued one at a time by any client thread -> every result must equal the single-copy model.
// Mode conc: client threads run concurrently -> the recorded history must be linearizable against the single-copy model.
// Mode fault: connection resets at arbitrary byte counts, server crash/restart, client clock skew -> an operation may
//             fail or a fetch may miss, but a fetch must never return a value that had been replaced / invalidated / lost.
#include "cache_storage.h"
#include "base_cache.h"
#include "tcp_cache_server.h"
#include "cache_over_ip.h"
#include <cppcms/cppcms_error.h>
#include <booster/system_error.h>
#include <cppcms/session_storage.h>
#include <thread>
#include <memory>
#include "../sim/runner.h"
#include "cache_lin.h"
#include "wire_proto.h"

namespace {
using cppcms::impl::base_cache;
typedef booster::shared_ptr<cppcms::sessions::session_storage_factory> sfact_type;

unsigned server_of(const std::string &key,unsigned n){   // independent re-implementation of the documented key -> server map
	if(n == 1) return 0; unsigned h = 0; for(unsigned char c:key){ unsigned hi = h & 0xf8000000u; h <<= 5; h ^= hi >> 27; h ^= c; } return h % n;
}
std::string key_of(int k){ static const char *ks[] = {"k0","k1","key two","k\x01\xff\x7f bin","\x7f","a-very-long-key-0123456789-0123456789-0123456789-0123456789-0123456789"}; k = ((k % 7) + 7) % 7; if(k == 6) return std::string("nul\0key",7); return std::string(ks[k]); }
// 100+k: the key k itself; 200+k: a name that has key k as a proper prefix ("article-5/comments"); 300+k: a proper prefix of key k
std::string trig_of(int t){ t = ((t % 1000) + 1000) % 1000; if(t >= 300){ std::string k = key_of(t-300); return k.size() > 1 ? k.substr(0,k.size()-1) : k + k; } if(t >= 200) return key_of(t-200) + "/c"; if(t >= 100) return key_of(t-100); if(t == 7) return ""; if(t == 8) return std::string("tn\0x",4); if(t >= 50) return "trigger-" + std::to_string(t) + "-" + std::string((size_t)(t % 17),'x'); return "t" + std::to_string(t); }
// fill 3..9: an "alias record" - the value begins with the name of another key (k = fill-3), so that bytes of a reply that end up where a key is expected name a real entry
std::string value_of(int opidx,int len,int fill){ if(fill >= 3){ std::string v = key_of(fill-3) + "#v" + std::to_string(opidx) + ":"; if(len > 0) v += wire::gen_bytes(opidx*7+1,(size_t)len,1); return v; } std::string v = "v" + std::to_string(opidx) + ":"; if(len <= 0) return len < 0 ? v : std::string(); v += wire::gen_bytes(opidx*7+1,(size_t)len,fill); if(fill == 0 && v.size() > 4) v[3] = '\0'; return v; }

struct E4 : Engine {
	bool fork_per_run(const J &) override { return true; } bool always_forks() override { return true; }   // server threads + process-wide state: pristine process per run

	J generate(uint64_t seed,const std::string &prop,bool thorough) override {
		simk::Rng r; r.seed(seed);
		J p = J::obj(); p["engine"] = "E4"; p["prop"] = prop; p["sched_seed"] = (unsigned long long)(r.next() >> 8); p["fault_seed"] = (unsigned long long)(r.next() >> 8);
		p["strategy"] = (int)r.below(3); p["pct_depth"] = 1 + (int)r.below(3); p["pct_len"] = 100 + (int)r.below(3000);
		unsigned x = r.below(10); std::string mode = x < 5 ? "seq" : x < 8 ? "conc" : "fault"; p["mode"] = mode;
		int ns = 1 + r.below(2); p["servers"] = ns; p["server_threads"] = 1 + (int)r.below(2);
		int nc = 2 + r.below(2); J cl = J::arr(); for(int i=0;i<nc;i++){ J c = J::obj(); unsigned y = r.below(4); c["l1"] = y == 0 ? -1 : y == 1 ? 0 : (int)(1 + r.below(4)); c["threads"] = 1 + (int)r.below(2); c["skew_s"] = mode == "fault" && r.below(3) == 0 ? (int)r.below(7) - 3 : 0; if(i == 0 && c.geti("l1") >= 0 && r.below(3) == 0) c["l1_process"] = 1; cl.push(c); }
		p["clients"] = cl;
		p["p_short_read"] = r.below(2) ? (int)r.below(400) : 0; p["p_short_write"] = r.below(2) ? (int)r.below(400) : 0; p["chan_cap"] = (int)(r.below(3) == 0 ? 1 + r.below(100) : 4096 + r.below(60000));
		int nkeys = 1 + r.below(4), ntrig = r.below(4); int koff = r.below(3) ? 0 : (int)r.below(7); bool nul_trig = r.below(6) == 0;
		int nops = mode == "conc" ? 6 + r.below(thorough ? 24 : 16) : 5 + r.below(thorough ? 60 : 25);
		J ops = J::arr();
		for(int i=0;i<nops;i++){ J o = J::obj(); o["c"] = (int)r.below(nc); o["t"] = (int)r.below(2); unsigned y = r.below(100);
			if(y < 34){ o["op"] = "store"; o["k"] = koff + (int)r.below(nkeys); J tr = J::arr(); if(nul_trig && r.below(3) == 0) tr.push(8); int nt = ntrig ? r.below(3) : 0; for(int k=0;k<nt;k++) tr.push((int)r.below(ntrig)); if(r.below(8) == 0) tr.push(100 + koff + (int)r.below(nkeys)); if(r.below(8) == 0) tr.push((r.below(3) ? 200 : 300) + koff + (int)r.below(nkeys)); if(r.below(25) == 0) for(int k=0;k<30;k++) tr.push(50+k); if(r.below(30) == 0) tr.push(7); o["trig"] = tr; if(i > 0 && r.below(6) == 0) o["dup"] = (int)r.below(i);
				o["dl"] = r.below(10) == 0 ? -1 : r.below(12) == 0 ? 1000000000 : 5 + (int)r.below(100); unsigned z = r.below(10); o["len"] = z == 0 ? 0 : z < 7 ? (int)r.below(60) : z < 9 ? (int)r.below(p.geti("chan_cap") < 200 ? 300 : 4000) : (int)r.below(p.geti("chan_cap") < 200 ? 600 : thorough ? 100000 : 30000); if(p.geti("chan_cap") >= 200 && r.below(30) == 0) o["len"] = 65537 + (int)r.below(80000);   /* larger than any channel: the server's reply to a fetch of it leaves in several pieces */ o["fill"] = (int)r.below(3); if(r.below(5) == 0) o["fill"] = 3 + koff + (int)r.below(nkeys); }
			else if(y < 76){ o["op"] = "fetch"; o["k"] = koff + (int)r.below(nkeys); o["how"] = (int)r.below(4); }
			else if(y < 86){ o["op"] = "rise"; o["tr"] = nul_trig && r.below(2) ? 8 : r.below(3) == 0 ? (r.below(3) ? 100 : r.below(3) ? 200 : 300) + koff + (int)r.below(nkeys) : (ntrig ? (int)r.below(ntrig) : 100); }
			else if(y < 90){ o["op"] = "clear"; }
			else if(y < 94){ o["op"] = "stats"; }
			else if(mode != "conc"){ o["op"] = "tick"; o["s"] = 1 + (int)r.below(4); }
			else { o["op"] = "fetch"; o["k"] = koff + (int)r.below(nkeys); o["how"] = 0; }
			ops.push(o); }
		// hot key (concurrent mode): the two threads of one node with an L1 keep fetching the one key that another node keeps storing - revalidation, refresh of the shared L1
		// copy and the other thread's fetch overlap in every order
		if(mode == "conc" && r.below(3) == 0){ ops = J::arr(); cl.a[0]["l1"] = (int)r.below(3); cl.a[0]["threads"] = 2; int nst = 2 + r.below(4), nf = 3 + r.below(5); int total = nst + 2*nf; std::vector<int> who; for(int i=0;i<nst;i++) who.push_back(2); for(int i=0;i<nf;i++){ who.push_back(0); who.push_back(1); } for(int i=total-1;i>0;i--) std::swap(who[i],who[r.below(i+1)]);
			for(int i=0;i<total;i++){ J o = J::obj(); if(who[i] == 2){ o["c"] = 1; o["t"] = 0; o["op"] = "store"; o["k"] = koff; o["trig"] = J::arr(); o["dl"] = 50; o["len"] = (int)r.below(40); o["fill"] = 1; } else { o["c"] = 0; o["t"] = who[i]; o["op"] = "fetch"; o["k"] = koff; o["how"] = (int)r.below(3); } ops.push(o); } p["clients"] = cl; p["hot_key"] = 1; }
		p["ops"] = ops;
		// masked resets (sequential mode): connection resets only, at most one per operation - the client's reconnect-and-retry has to mask each of them, so the
		// oracle stays exactly as strict as without faults (every operation succeeds, every fetch equals the single-copy model)
		if(mode == "seq" && r.below(3) == 0){ J f = J::arr(); int nf = 1 + r.below(5); for(int i=0;i<nf;i++){ J ft = J::obj(); ft["at"] = (int)r.below(nops); ft["kind"] = "reset"; ft["after_bytes"] = r.below(4) == 0 ? 0 : (int)r.below(r.below(2) ? 200 : 3000); f.push(ft); } p["faults"] = f; p["masked"] = 1; }
		if(mode == "fault"){ J f = J::arr(); int nf = 1 + r.below(4);
			for(int i=0;i<nf;i++){ J ft = J::obj(); unsigned y = r.below(10); ft["at"] = (int)r.below(nops); if(y < 4){ ft["kind"] = "reset"; ft["after_bytes"] = (int)r.below(3000); } else if(y < 7){ ft["kind"] = "restart"; ft["s"] = (int)r.below(ns); }
				else if(y < 9){ ft["kind"] = "cut"; ft["c"] = (int)r.below(nc); ft["s"] = (int)r.below(ns);
					// half of the partitions start right at a rise/clear of the node they isolate: an invalidation that cannot reach every server is the interesting case
					if(r.below(2)){ std::vector<int> inv; for(int j=0;j<nops;j++){ std::string k = ops.a[j].gets("op"); if(k == "rise" || k == "clear") inv.push_back(j); } if(!inv.empty()){ int j = inv[r.below(inv.size())]; ft["at"] = j; ft["c"] = (int)ops.a[j].geti("c"); } }
					ft["heal"] = (int)ft.geti("at") + 1 + (int)r.below(6); }   // partition between one client node and one server, healed a few operations later
				else { ft["kind"] = "reset"; ft["after_bytes"] = 0; } f.push(ft); }
			p["faults"] = f; }
		return p;
	}

	struct Node { booster::intrusive_ptr<base_cache> cache; int l1 = -1; int skew = 0; };
	struct Mail { bool has = false, done = false, quit = false; Op *op = nullptr; };

	static void exec(base_cache &c,Op &op,uint64_t &clock,std::string &err){
		op.inv = ++clock;
		try {
			if(op.kind == "store") c.store(op.key,op.val,op.trig,op.deadline);
			else if(op.kind == "fetch"){ time_t dl = 0; op.rtrig.clear();
				switch(op.how & 3){ case 0: op.hit = c.fetch(op.key,&op.rval,&op.rtrig,&dl,0); break; case 1: op.hit = c.fetch(op.key,op.rval,&op.rtrig); break; case 2: op.hit = c.fetch(op.key,&op.rval,0,&dl,0); break; default: op.hit = c.fetch(op.key,0,0,0,0); }
				op.rdl = dl; }
			else if(op.kind == "rise") c.rise(op.key);
			else if(op.kind == "clear") c.clear();
			else if(op.kind == "stats") c.stats(op.rkeys,op.rtrigs);
		} catch(cppcms::cppcms_error const &e){ err = e.what(); } catch(booster::system::system_error const &e){ err = std::string("system_error: ") + e.what(); }
		op.ret = ++clock;
	}

	RunResult run(const J &plan) override {
		RunResult res; std::map<std::string,int64_t> cnt;
		simk::Params sp; sp.sched_seed = (uint64_t)plan.geti("sched_seed",1); sp.fault_seed = (uint64_t)plan.geti("fault_seed",1); sp.strategy = (int)(((plan.geti("strategy") % 3) + 3) % 3);
		sp.pct_depth = (int)std::max<int64_t>(1,std::min<int64_t>(plan.geti("pct_depth",2),8)); sp.pct_len = (int)std::max<int64_t>(1,plan.geti("pct_len",500)); sp.tick_us = 1;
		sp.p_short_read = (unsigned)std::max<int64_t>(0,std::min<int64_t>(plan.geti("p_short_read"),1000)); sp.p_short_write = (unsigned)std::max<int64_t>(0,std::min<int64_t>(plan.geti("p_short_write"),1000));
		sp.default_chan_cap = (size_t)std::max<int64_t>(1,std::min<int64_t>(plan.geti("chan_cap",65536),1<<20)); sp.max_steps = 5000000; sp.text_trace = plan.geti("text_trace");
		simk::begin(sp);
		std::string mode = plan.gets("mode","seq"); bool fault = mode == "fault", conc = mode == "conc";
		unsigned ns = (unsigned)std::max<int64_t>(1,std::min<int64_t>(plan.geti("servers",1),3)); int sthreads = (int)std::max<int64_t>(1,std::min<int64_t>(plan.geti("server_threads",1),3));
		int64_t now = simk::now_us()/1000000;
		std::vector<Op> hist; CacheModel model; model.limit = 0; uint64_t clock = 0;
		// known finding (known-findings.json, DESIGN 10.4): the wire format carries trigger lists NUL separated, a trigger name - or a key, which is
		// its own implicit trigger - that contains a NUL byte is split by the server. A violation is attributed to it (class prefix "nul-name-")
		// only when the failing fetch reads a key that contains NUL or was ever stored with such a trigger, or, for whole-history / whole-server
		// verdicts (linearizability, stats, key distribution), when the plan uses such a name at all.
		bool any_nul = false; std::set<std::string> nul_tainted; std::string fail_key; bool fail_is_fetch = false;
		{ auto has_nul = [](const std::string &x){ return x.find('\0') != std::string::npos; }; const J &jo = plan.get("ops");
			std::vector<std::string> skey(jo.size()); std::vector<int> snul(jo.size(),-1);   // per store op: effective key and whether a NUL name is involved ("dup" repeats an earlier store)
			for(size_t i=0;i<jo.size() && i<200;i++){ const J &o = jo.a[i]; std::string k = o.gets("op"); bool n = false;
				if(k == "rise"){ if(has_nul(trig_of((int)o.geti("tr")))) any_nul = true; continue; }
				if(k != "store" && k != "fetch") continue; std::string key = key_of((int)o.geti("k"));
				if(k == "store"){ const J &tr = o.get("trig"); for(size_t j=0;j<tr.size() && j<64;j++) if(has_nul(trig_of((int)tr.a[j].as_int()))) n = true;
					if(o.has("dup")){ size_t j = (size_t)std::max<int64_t>(0,o.geti("dup")); if(j < i && snul[j] >= 0){ key = skey[j]; n = snul[j] > 0; } } }
				if(has_nul(key)) n = true;
				if(k == "store"){ skey[i] = key; snul[i] = n; }
				if(n){ any_nul = true; nul_tainted.insert(key); } } }
		// stale detection in fault mode: for every key the set of values that were current at some time >= the start of the fetch
		std::map<std::string,std::vector<std::string>> superseded;   // key -> values known to be dead (replaced / invalidated / lost)
		{
			std::vector<std::unique_ptr<cppcms::impl::tcp_cache_service>> servers(ns);
			std::vector<std::string> ips; std::vector<int> ports;
			auto start_server = [&](unsigned s){ servers[s].reset(new cppcms::impl::tcp_cache_service(cppcms::impl::thread_cache_factory(0),sfact_type(),sthreads,"127.0.0.1",6001 + (int)s)); };
			for(unsigned s=0;s<ns;s++){ simk::set_node(10 + (int)s); start_server(s); ips.push_back("127.0.0.1"); ports.push_back(6001 + (int)s); }
			simk::set_node(0);
			const J &cls = plan.get("clients"); size_t nc = std::max<size_t>(1,std::min<size_t>(cls.size(),4));
			std::vector<Node> nodes(nc); bool process_l1_used = false;
			for(size_t i=0;i<nc;i++){ const J &c = i < cls.size() ? cls.a[i] : J(); int l1 = (int)c.geti("l1",-1); nodes[i].l1 = l1; nodes[i].skew = (int)std::max<int64_t>(-10,std::min<int64_t>(c.geti("skew_s"),10));
				booster::intrusive_ptr<base_cache> l1c; if(l1 >= 0 && c.geti("l1_process") && !process_l1_used){ process_l1_used = true; l1c = cppcms::impl::process_cache_factory(1u << 20,(unsigned)l1); res.counters["process_shared_l1_runs"] = 1; }   /* the first-level cache of (at most) one node is the process-shared one (cache.backend process_shared in front of cache.tcp) */ else if(l1 >= 0) l1c = cppcms::impl::thread_cache_factory((unsigned)l1);
				nodes[i].cache = cppcms::impl::tcp_cache_factory(ips,ports,l1c); if(nodes[i].skew) simk::set_node_skew_us(1 + (int)i,nodes[i].skew * 1000000LL); }
			// decode ops
			const J &jops = plan.get("ops"); std::vector<Op> ops; std::vector<std::pair<int,int>> who; std::vector<int> ticks;
			for(size_t i=0;i<jops.size() && i<200;i++){ const J &o = jops.a[i]; Op op; op.kind = o.gets("op"); op.how = (int)o.geti("how"); op.thread = 0;
				if(op.kind == "rise") op.key = trig_of((int)o.geti("tr")); else op.key = key_of((int)o.geti("k"));
				if(op.kind == "store"){ const J &tr = o.get("trig"); for(size_t j=0;j<tr.size() && j<64;j++) op.trig.insert(trig_of((int)tr.a[j].as_int())); int64_t dl = o.geti("dl"); op.deadline = dl < 0 ? now - 1 : now + dl; op.val = value_of((int)i,(int)std::min<int64_t>(o.geti("len"),200000),(int)o.geti("fill")); if(op.val.empty() && r_nonempty_marker) {}
					// an exact repetition of an earlier store (same key, bytes, triggers, absolute deadline): whatever a node still holds of the first one must not short-cut the second
					if(o.has("dup")){ size_t j = (size_t)std::max<int64_t>(0,o.geti("dup")); if(j < ops.size() && ops[j].kind == "store"){ op.key = ops[j].key; op.val = ops[j].val; op.trig = ops[j].trig; op.deadline = ops[j].deadline; } } }
				int c = (int)(((o.geti("c") % (int64_t)nc) + nc) % nc), t = (int)(o.geti("t") & 1); op.thread = c*2 + t;
				ops.push_back(op); who.push_back({c,t}); ticks.push_back(op.kind == "tick" ? (int)std::max<int64_t>(0,std::min<int64_t>(o.geti("s"),100000)) : 0); }
			// faults
			struct Fault { int at; std::string kind; int s; int64_t after_bytes; bool armed = false, fired = false; uint64_t base = 0; int c = 0, heal = -1; bool healed = false; };
			bool masked = !fault && !conc && plan.geti("masked"); int op_resets = 0; bool cur_readonly = true; uint64_t op_base_bytes = 0; if(masked) cnt["masked_reset_runs"]++;
			std::vector<Fault> faults; const J &jf = plan.get("faults"); if(fault || masked) for(size_t i=0;i<jf.size() && i<8;i++){ Fault f; f.at = (int)std::max<int64_t>(0,jf.a[i].geti("at")); f.kind = jf.a[i].gets("kind"); f.s = (int)(jf.a[i].geti("s") % ns); f.after_bytes = std::max<int64_t>(0,jf.a[i].geti("after_bytes")); f.c = (int)(((jf.a[i].geti("c") % (int64_t)nc) + nc) % nc); f.heal = (int)jf.a[i].geti("heal",-1); faults.push_back(f); }
			struct Resetter : simk::Actor { std::vector<Fault> *f; std::map<std::string,int64_t> *cnt; bool *cur_readonly = nullptr; uint64_t *op_base_bytes = nullptr; int *op_resets = nullptr;   /* masked mode: one reset per operation at most, none while an earlier one has not been noticed yet */
				bool enabled() override { if(op_resets && (*op_resets > 0 || simk::unconsumed_resets())) return false;
					// strict mode: a reset behind a (partly) sent store / rise / clear lets the server execute the request twice, the first copy at some later time (at-least-once);
					// only resets that cannot do that are injected there: during read-only operations, or before the operation has put a byte on the wire
					if(op_resets && !*cur_readonly && simk::stats().bytes_rx + simk::stats().bytes_tx != *op_base_bytes) return false; for(auto &x:*f) if(x.kind == "reset" && x.armed && !x.fired && simk::stats().bytes_rx + simk::stats().bytes_tx >= x.base + (uint64_t)x.after_bytes) return true; return false; }
				void step() override { for(auto &x:*f) if(x.kind == "reset" && x.armed && !x.fired && simk::stats().bytes_rx + simk::stats().bytes_tx >= x.base + (uint64_t)x.after_bytes){ x.fired = true; if(simk::reset_accepted_stream(simk::fault_rng().next())){ (*cnt)["connection_resets"]++; if(op_resets){ (*op_resets)++; (*cnt)["masked_resets"]++; } } if(op_resets) break; } } const char *name() override { return "resetter"; } } resetter; resetter.f = &faults; resetter.cnt = &cnt; if(masked){ resetter.op_resets = &op_resets; resetter.cur_readonly = &cur_readonly; resetter.op_base_bytes = &op_base_bytes; } if(fault || masked) simk::add_actor(&resetter);
			// worker threads (one per client thread)
			std::vector<Mail> mail(nc*2); std::vector<std::thread> thr; std::vector<std::string> errs(ops.size());
			std::vector<std::vector<size_t>> mine(nc*2); for(size_t i=0;i<ops.size();i++) mine[who[i].first*2 + who[i].second].push_back(i);
			bool go = false;
			for(size_t w=0;w<nc*2;w++) thr.emplace_back([&,w]{ simk::set_node(1 + (int)(w/2)); Node &n = nodes[w/2];
				if(conc){ simk::block([&]{ return go; },-1,"wait-go"); for(size_t i:mine[w]) if(ops[i].kind != "tick") exec(*n.cache,ops[i],clock,errs[i]); return; }
				for(;;){ simk::block([&,w]{ return mail[w].has || mail[w].quit; },-1,"mailbox"); if(mail[w].quit) return; size_t i = (size_t)(mail[w].op - &ops[0]); exec(*n.cache,*mail[w].op,clock,errs[i]); mail[w].has = false; mail[w].done = true; } });
			if(conc){ go = true; for(auto &t:thr) t.join(); for(size_t i=0;i<ops.size();i++) if(ops[i].kind != "tick"){ if(!errs[i].empty()){ res.fail("operation-failed","operation " + ops[i].str() + " failed without any fault: " + errs[i]); break; }
				if(ops[i].kind == "stats" && ns > 1){ cnt["stats_multi_server_not_atomic"]++; continue; }   // the sum over several servers is read server by server: not an atomic snapshot, and not claimed to be
				hist.push_back(ops[i]); } }
			else {
				for(size_t i=0;i<ops.size() && res.ok;i++){ Op &op = ops[i]; int w = who[i].first*2 + who[i].second; fail_key = op.key; fail_is_fetch = op.kind == "fetch";
					for(auto &f:faults) if(f.kind == "cut" && f.armed && !f.healed && f.heal <= (int)i){ f.healed = true; simk::set_link_cut(1 + f.c,"tcp:" + std::to_string(6001 + f.s),false); }
					for(auto &f:faults) if(f.at == (int)i && !f.armed){ f.armed = true; f.base = simk::stats().bytes_rx + simk::stats().bytes_tx;
						if(masked && f.kind != "reset") continue;
						if(f.kind == "cut"){ cnt["partitions"]++; simk::set_link_cut(1 + f.c,"tcp:" + std::to_string(6001 + f.s),true); }
						if(f.kind == "restart"){ cnt["server_restarts"]++; servers[f.s].reset(); start_server(f.s);
							// everything that lived on that server is lost
							for(auto it=model.m.begin();it!=model.m.end();){ if(server_of(it->first,ns) == (unsigned)f.s){ superseded[it->first].push_back(it->second.val); it = model.m.erase(it); } else ++it; } } }
					if(op.kind == "tick"){ simk::advance_us(ticks[i]*1000000LL); cnt["ticks"]++; continue; }
					int64_t tnow = simk::now_us()/1000000;
					op_resets = simk::unconsumed_resets() ? 1 : 0;   // a reset injected while the connection was idle is noticed by this operation: it uses up the operation's budget
					cur_readonly = op.kind == "fetch" || op.kind == "stats"; op_base_bytes = simk::stats().bytes_rx + simk::stats().bytes_tx; int64_t resets_before = cnt["connection_resets"]; bool pending_before = simk::unconsumed_resets() > 0;
					mail[w].op = &op; mail[w].done = false; mail[w].has = true;
					bool fin = simk::block([&,w]{ return mail[w].done; },simk::now_us() + 600LL*1000000,"wait-op");
					if(!fin){ res.fail("operation-hangs","operation " + op.str() + " did not complete within 600 simulated seconds"); break; }
					if(fault && op.kind == "store" && (cnt["connection_resets"] > resets_before || pending_before)){ zombies[op.key].insert(op.val); cnt["stores_retried_after_reset"]++; }
					cnt["ops"]++; std::string where = "op#" + std::to_string(i) + " client " + std::to_string(who[i].first) + (nodes[who[i].first].l1 >= 0 ? " (L1 limit " + std::to_string(nodes[who[i].first].l1) + ")" : " (no L1)") + " " + op.str();
					if(!errs[i].empty()){ cnt["ops_failed"]++; if(!fault){ res.fail("operation-failed",where + " failed without any fault: " + errs[i]); break; }
						// an operation that failed may or may not have taken effect on some servers
						if(op.kind == "store"){ auto it = model.m.find(op.key); if(it != model.m.end()){ unsure[op.key].insert(it->second.val); model.m.erase(it); } unsure[op.key].insert(op.val); }   // the old value may still be current, or the new one
						else if(op.kind == "rise" || op.kind == "clear"){ for(auto &kv:model.m){ unsure[kv.first].insert(kv.second.val); } if(op.kind == "clear") { /* may have cleared some servers only */ } }
						continue; }
					// ---- model and oracle
					if(op.kind == "store"){ auto it = model.m.find(op.key); if(it != model.m.end()) superseded[op.key].push_back(it->second.val); for(auto &u:unsure[op.key]) superseded[op.key].push_back(u); unsure[op.key].clear();
						// the wire format (NUL separated list) cannot carry an empty trigger name: the server refuses such a store; the superseded value must be gone all the same
						if(op.trig.count("")){ model.remove(op.key); superseded[op.key].push_back(op.val); cnt["stores_refused_empty_trigger"]++; } else model.store(op.key,op.val,op.trig,op.deadline,tnow); cnt["stores"]++; }
					else if(op.kind == "rise"){ for(auto &kv:model.m) if(kv.second.trig.count(op.key)) superseded[kv.first].push_back(kv.second.val); for(auto &kv:unsure) for(auto &u:kv.second) superseded[kv.first].push_back(u); model.rise(op.key); cnt["rises"]++; }
					else if(op.kind == "clear"){ for(auto &kv:model.m) superseded[kv.first].push_back(kv.second.val); for(auto &kv:unsure) for(auto &u:kv.second) superseded[kv.first].push_back(u); unsure.clear(); model.clear(); cnt["clears"]++; }
					else if(op.kind == "stats"){ unsigned k,t; model.stats(k,t); if(!fault && (op.rkeys != k || op.rtrigs != t)){ res.fail("stats-mismatch",where + " but the single-copy model holds keys=" + std::to_string(k) + " triggers=" + std::to_string(t)); } cnt["stats"]++; }
					else if(op.kind == "fetch"){ cnt[op.hit ? "fetch_hit" : "fetch_miss"]++;
						const CacheEntry *e = nullptr; bool mhit = model.fetch(op.key,tnow,&e);
						if(fault){
							if(op.hit){ bool dead = false; for(auto &d:superseded[op.key]) if(d == op.rval && (op.how & 3) != 3) dead = true; bool cur = mhit && e->val == op.rval; bool maybe = unsure[op.key].count(op.rval); if(!getenv("E4_NO_ZOMBIE") && (op.how & 3) != 3 && !cur && !maybe && zombies[op.key].count(op.rval)){ maybe = true; cnt["delayed_duplicate_store_seen"]++; if(getenv("E4_DEBUG_ZOMBIE")) fprintf(stderr,"ZOMBIE %s dead=%d\n",where.c_str(),(int)dead); }
								if((op.how & 3) != 3 && !cur && !maybe){ res.fail(dead ? "stale-value-served" : "unknown-value-served",where + ": this value was " + (dead ? "replaced, invalidated or lost before the fetch began" : "never stored under this key") + (mhit ? "; current value is " + e->val.substr(0,30) : "; the key currently has no value")); } }
							continue; }
						if(op.hit != mhit){ res.fail(op.hit ? "stale-value-served" : "live-entry-missed",where + " but the single-copy model says " + (mhit ? "HIT " + e->val.substr(0,30) : "MISS")); break; }
						if(op.hit){ if((op.how & 3) != 3 && op.rval != e->val){ res.fail("stale-value-served",where + " expected " + e->val.substr(0,30)); break; }
							if((op.how & 3) <= 1 && op.rtrig != e->trig){ std::string a,b; for(auto &t:op.rtrig) a += wire::esc(t) + ","; for(auto &t:e->trig) b += wire::esc(t) + ","; res.fail("wrong-triggers",where + ": trigger set {" + a + "} differs from the stored one {" + b + "}"); break; }
							if(((op.how & 3) == 0 || (op.how & 3) == 2) && op.rdl != e->deadline){ res.fail("wrong-deadline",where + ": deadline " + std::to_string((long)op.rdl) + " expected " + std::to_string((long)e->deadline)); break; } } }
				}
				for(size_t w=0;w<nc*2;w++) mail[w].quit = true; for(auto &t:thr) t.join();
				// per-server key distribution (consistent key -> server map): fault-free sequential mode only
				if(res.ok && !fault && ns > 1){ std::vector<unsigned> per(ns,0); for(auto &kv:model.m) per[server_of(kv.first,ns)]++;
					for(unsigned s=0;s<ns && res.ok;s++){ std::vector<std::string> ip1(1,"127.0.0.1"); std::vector<int> p1(1,6001+(int)s); booster::intrusive_ptr<base_cache> probe = cppcms::impl::tcp_cache_factory(ip1,p1,0); unsigned k=0,t=0; probe->stats(k,t); if(k != per[s]) res.fail("inconsistent-key-distribution","server " + std::to_string(s) + " holds " + std::to_string(k) + " keys, the documented hash puts " + std::to_string(per[s]) + " there"); cnt["distribution_checks"]++; } }
			}
			simk::clear_actors();
			for(auto &n:nodes) n.cache = 0;
			for(auto &s:servers) s.reset();
		}
		res.hash = simk::trace_hash();
		res.counters["sim_seconds"] = (long long)((simk::now_us() - sp.start_time_s*1000000LL)/1000000);
		simk::Stats st = simk::stats();
		simk::end();
		if(res.ok && conc){
			// with several servers rise() and clear() are broadcasts: every server is reached at its own moment inside the call (found by a soak run: a fetch served by the
			// server not yet reached, after a fetch on the one already cleared, is no violation - only a COMPLETED rise/clear binds every later fetch)
			if(ns > 1){ std::vector<Op> h2; for(auto &o:hist){ if(o.kind == "rise" || o.kind == "clear"){ for(unsigned sv=0;sv<ns;sv++){ Op c2 = o; c2.only_server = (int)sv; h2.push_back(c2); } } else h2.push_back(o); } hist.swap(h2); cnt["lin_broadcasts_split_per_server"]++; }
			Lin lin(hist,now,1500000); lin.empty_trigger_refused = true; lin.server_of = [ns](const std::string &k){ return server_of(k,ns); }; CacheModel start; start.limit = 0; bool ok = lin.search(0,start); cnt["lin_states"] = (int64_t)lin.states;
			if(lin.inconclusive) cnt["lin_inconclusive"]++;
			else if(!ok){ std::string h; std::vector<Op> sorted = hist; std::sort(sorted.begin(),sorted.end(),[](const Op&a,const Op&b){ return a.inv < b.inv; }); for(auto &o:sorted) h += "  " + o.str().substr(0,160) + "\n"; res.fail("not-linearizable","no sequential order consistent with real time explains the results of the clients:\n" + h); }
			uint64_t overlap = 0; for(size_t i=0;i<hist.size();i++) for(size_t j=i+1;j<hist.size();j++) if(hist[i].thread != hist[j].thread && hist[i].inv < hist[j].ret && hist[j].inv < hist[i].ret) overlap++; cnt["overlapping_pairs"] = (int64_t)overlap; }
		if(!res.ok && any_nul && res.cls.compare(0,9,"sanitizer") != 0 && res.cls.compare(0,5,"crash") != 0){
			bool whole = conc || res.cls == "stats-mismatch" || res.cls == "inconsistent-key-distribution";
			if(whole || (fail_is_fetch && nul_tainted.count(fail_key))){ res.cls = "nul-name-" + res.cls; res.fp = "nul-name-in-key-or-trigger:" + res.fp; } }
		if(any_nul) cnt["plans_with_nul_in_names"]++;
		for(auto &kv:cnt) res.counters[kv.first] = (long long)kv.second;
		res.counters["connects_refused_by_partition"] = (long long)st.partition_refused;
		res.counters["steps"] = (long long)st.steps; res.counters["switches"] = (long long)st.switches; res.counters["short_reads"] = (long long)st.short_reads; res.counters["short_writes"] = (long long)st.short_writes; res.counters["connects"] = (long long)st.connects; res.counters["resets_seen"] = (long long)st.resets;
		res.counters["mode_" + mode] = 1;
		if(cnt["fetch_hit"] > 0 || conc) res.nt = res.hash ? res.hash : 1;
		return res;
	}
	std::map<std::string,std::set<std::string>> unsure;   // fault mode: values whose store failed half-way (may or may not be there)
	// fault mode: values of stores that met a connection reset and were retried. The first copy of the request may have reached the server before the reset and be
	// executed LATER than the retry - after stores of other nodes, too: reconnect-and-retry gives at-least-once delivery. Such a value may re-appear for the rest of the run.
	std::map<std::string,std::set<std::string>> zombies;
	bool r_nonempty_marker = false;
};
}
int main(int argc,char **argv){ E4 e; return runner::main_impl(argc,argv,e,"E4"); }
