// Independent protocol code for the E1 "wire" engine: logical request model, HTTP / SCGI / FastCGI encoders and
// response de-framers, and the conservative model of what the application must observe (DESIGN.md s4 C01).
#pragma once
#include <string>
#include <vector>
#include <map>
#include <set>
#include <cstdint>
#include <cstring>
#include <cstdio>
#include <algorithm>

namespace wire {

typedef std::vector<std::pair<std::string,std::string>> Pairs;

inline std::string esc(const std::string &s){ std::string r; char b[8]; for(unsigned char c:s){ if(c >= 0x20 && c < 0x7f && c != '\\' && c != '=' && c != '|') r += (char)c; else { snprintf(b,sizeof(b),"\\x%02x",c); r += b; } } return r; }
inline uint64_t fnv(const std::string &s){ uint64_t h = 1469598103934665603ULL; for(unsigned char c:s) h = (h ^ c) * 1099511628211ULL; return h; }
inline std::string blob(const std::string &s){ char b[64]; snprintf(b,sizeof(b),"len=%zu fnv=%016llx",s.size(),(unsigned long long)fnv(s)); return std::string(b) + " head=" + esc(s.substr(0,24)) + " tail=" + esc(s.size() > 24 ? s.substr(s.size()-std::min<size_t>(24,s.size())) : ""); }

// deterministic pseudo random bytes for bodies (plans carry only (seed,len,kind))
inline std::string gen_bytes(uint64_t seed,size_t len,int kind){
	std::string r(len,'\0'); uint64_t x = seed * 0x9E3779B97F4A7C15ULL + 12345;
	for(size_t i=0;i<len;i++){ x ^= x << 13; x ^= x >> 7; x ^= x << 17;
		unsigned char c = (unsigned char)(x >> 24);
		if(kind == 1) c = "abcdefghij0123456789-_.~"[c % 24];         // token-ish text
		else if(kind == 2){ static const char adv[] = "\r\n-\r\n--ab\r-\n"; c = (unsigned char)adv[c % (sizeof(adv)-1)]; }   // CR/LF/dash runs
		r[i] = (char)c; }
	return r;
}

// ---------------------------------------------------------------- logical request
struct Req {
	std::string method = "GET";
	long long xlimit = -1;   // >= 0: the content-filter application sets request().limits() (content length and multipart limit) to this many bytes before the body is read (header X-Limit)
	std::string host = "sim.example"; bool host_last = false;   // Host header (HTTP_HOST); host_last: sent behind all other headers (HTTP)
	std::string script = "/s";        // configured script name (mount)
	std::string path = "/echo";       // raw (still percent-encoded) path after the script name
	bool has_query = false; std::string query;
	Pairs headers;                    // extra request headers (name as sent, value as sent), model-safe sub-language
	std::vector<int> fold;            // HTTP only, per header: > 0 = send the value folded (obs-fold: CRLF SP replaces its first space outside quotes/comments, RFC 7230 3.2.4 - the receiver reads a single space); 2 = two folds
	Pairs cookies;                    // name=value (token / simple quoted values)
	std::vector<int> cookie_quoted;   // per cookie: send value quoted
	std::string content_type;         // empty = none
	bool has_body = false; std::string body;
	struct Part { std::string name, filename, ctype, content; bool has_filename = false; bool quoted = true; };
	std::vector<Part> parts; std::string boundary;   // multipart/form-data body (body is built from these)
	bool exotic = false;              // outside the model's sub-language: only metamorphic comparison applies
	std::string raw_extra_headers;    // exotic: verbatim header lines (folded, odd spacing), HTTP only
};

inline int hexv(char c){ if(c >= '0' && c <= '9') return c-'0'; if(c >= 'a' && c <= 'f') return c-'a'+10; if(c >= 'A' && c <= 'F') return c-'A'+10; return -1; }
inline std::string urldecode(const std::string &s){ std::string r; for(size_t i=0;i<s.size();i++){ if(s[i] == '+') r += ' '; else if(s[i] == '%' && i+2 < s.size()+0 && i+2 <= s.size()-1+0 && hexv(s[i+1]) >= 0 && hexv(s[i+2]) >= 0){ r += (char)(hexv(s[i+1])*16 + hexv(s[i+2])); i += 2; } else r += s[i]; } return r; }
inline std::string cgi_name(const std::string &h){ std::string n; for(char c:h){ if(c == '-') n += '_'; else if(c >= 'a' && c <= 'z') n += (char)(c - 'a' + 'A'); else n += c; } if(n == "CONTENT_LENGTH" || n == "CONTENT_TYPE") return n; return "HTTP_" + n; }
inline std::string cookie_header(const Req &r){ std::string c; for(size_t i=0;i<r.cookies.size();i++){ if(i) c += "; "; c += r.cookies[i].first + "="; bool q = i < r.cookie_quoted.size() && r.cookie_quoted[i]; c += q ? "\"" + r.cookies[i].second + "\"" : r.cookies[i].second; } return c; }

// what the application must observe -------------------------------------------------
struct Expect { std::map<std::string,std::string> env; Pairs get, post, cookies; std::string body; bool has_post_form = false; std::vector<std::string> files; };

inline bool parse_form(const std::string &s,Pairs &out){
	out.clear(); size_t p = 0;
	while(p < s.size()){ size_t e = s.find('&',p); if(e == std::string::npos) e = s.size(); size_t q = s.find('=',p); if(q == std::string::npos || q >= e || q == p){ out.clear(); return false; }
		out.push_back({urldecode(s.substr(p,q-p)),urldecode(s.substr(q+1,e-q-1))}); p = e + 1; }
	return true;
}
inline void sort_pairs(Pairs &p){ std::stable_sort(p.begin(),p.end(),[](const std::pair<std::string,std::string>&a,const std::pair<std::string,std::string>&b){ return a.first < b.first; }); }

// PATH_INFO is percent-decoded; '+' does not occur in generated paths (cppcms maps it to a blank, RFC 3875 does not)
inline std::string urldecode_path(const std::string &s);
// proto: 0 http, 1 scgi, 2 fastcgi.  Returns the CGI environment the front-end must present.
inline Expect expect(const Req &r,int proto,bool http11,bool keepalive_hdr,int port){
	Expect x;
	auto &e = x.env;
	e["REQUEST_METHOD"] = r.method;
	e["SCRIPT_NAME"] = r.script;
	e["PATH_INFO"] = urldecode_path(r.path);
	if(r.has_query) e["QUERY_STRING"] = r.query;
	e["SERVER_PROTOCOL"] = http11 ? "HTTP/1.1" : "HTTP/1.0";
	for(auto &h:r.headers) e[cgi_name(h.first)] = h.second;
	if(!r.cookies.empty()) e["HTTP_COOKIE"] = cookie_header(r);
	if(!r.content_type.empty()) e["CONTENT_TYPE"] = r.content_type;
	if(r.has_body) e["CONTENT_LENGTH"] = std::to_string(r.body.size());
	if(keepalive_hdr) e["HTTP_CONNECTION"] = "keep-alive";
	if(proto == 0){ e["SERVER_NAME"] = "127.0.0.1"; e["SERVER_PORT"] = std::to_string(port); e["GATEWAY_INTERFACE"] = "CGI/1.0"; e["REMOTE_ADDR"] = "127.0.0.1"; e["REMOTE_HOST"] = "127.0.0.1"; e["HTTP_HOST"] = r.host; }
	else { e["REMOTE_ADDR"] = "10.1.2.3"; e["SERVER_NAME"] = "front.example"; e["SERVER_PORT"] = "80"; e["GATEWAY_INTERFACE"] = "CGI/1.1"; e["HTTP_HOST"] = r.host; if(proto == 1) e["SCGI"] = "1"; if(!r.has_body) e["CONTENT_LENGTH"] = "0"; }
	if(r.has_query) parse_form(r.query,x.get);
	for(auto &c:r.cookies) x.cookies.push_back(c);
	x.body = r.has_body ? r.body : "";
	if(r.has_body && r.content_type == "application/x-www-form-urlencoded"){ x.has_post_form = true; parse_form(r.body,x.post); }
	if(!r.parts.empty() || !r.boundary.empty()){
		// multipart/form-data: parts with a Content-Type are files, the others are form fields; the raw body is not kept
		x.body.clear();
		for(auto &p:r.parts){ if(p.ctype.empty()) x.post.push_back({p.name,p.content}); else x.files.push_back(esc(p.name) + "|" + esc(p.ctype.substr(0,p.ctype.find(';'))) + "|" + esc(p.filename) + "|" + blob(p.content)); } }
	sort_pairs(x.get); sort_pairs(x.post); sort_pairs(x.cookies);
	return x;
}

// the canonical text the echo application prints and the model predicts
inline std::string echo_text(const std::map<std::string,std::string> &env,const Pairs &get,const Pairs &post,const Pairs &cookies,const std::string &body,const std::vector<std::string> &files){
	std::string t;
	for(auto &kv:env){ if(kv.first == "SERVER_SOFTWARE") continue; t += "E " + esc(kv.first) + "=" + esc(kv.second) + "\n"; }
	for(auto &kv:get) t += "G " + esc(kv.first) + "=" + esc(kv.second) + "\n";
	for(auto &kv:post) t += "P " + esc(kv.first) + "=" + esc(kv.second) + "\n";
	for(auto &kv:cookies) t += "C " + esc(kv.first) + "=" + esc(kv.second) + "\n";
	t += "B " + blob(body) + "\n";
	for(auto &f:files) t += "F " + f + "\n";
	return t;
}

// the application mounted for this host only (the harness mounts it in front of the synchronous echo application)
inline bool internal_host(const std::string &h){ if(h == "internal.example") return true; const std::string pre = "internal.example:"; if(h.compare(0,pre.size(),pre) != 0 || h.size() == pre.size()) return false; for(size_t i=pre.size();i<h.size();i++) if(h[i] < '0' || h[i] > '9') return false; return true; }
inline std::string multipart_body(const Req &r){
	std::string b;
	// quoted-string parameters (RFC 7230 3.2.6): a backslash and a double quote inside the value are sent as quoted-pairs
	auto qs = [](const std::string &v){ std::string o = "\""; for(char c:v){ if(c == '"' || c == '\\') o += '\\'; o += c; } return o + "\""; };
	for(auto &p:r.parts){ b += "--" + r.boundary + "\r\n"; b += "Content-Disposition: form-data; name=" + (p.quoted ? qs(p.name) : p.name);
		if(p.has_filename) b += "; filename=" + qs(p.filename); b += "\r\n"; if(!p.ctype.empty()) b += "Content-Type: " + p.ctype + "\r\n"; b += "\r\n" + p.content + "\r\n"; }
	b += "--" + r.boundary + "--\r\n"; return b;
}
// ---------------------------------------------------------------- encoders
inline std::string http_encode(const Req &r,bool http11,bool keepalive){
	std::string s = r.method + " " + r.script + r.path + (r.has_query ? "?" + r.query : "") + (http11 ? " HTTP/1.1\r\n" : " HTTP/1.0\r\n");
	if(!r.host_last) s += "Host: " + r.host + "\r\n";
	for(size_t i=0;i<r.headers.size();i++){ const auto &h = r.headers[i]; std::string v = h.second; int nf = i < r.fold.size() ? r.fold[i] : 0;
		for(size_t p=1;nf > 0 && p + 1 < v.size();p++){ if(v[p] == '"' || v[p] == '(') break; if(v[p] == ' ' && v[p-1] != ' ' && v[p+1] != ' '){ v.replace(p,1,"\r\n "); p += 2; nf--; } }
		s += h.first + ": " + v + "\r\n"; }
	s += r.raw_extra_headers;
	if(r.host_last) s += "Host: " + r.host + "\r\n";
	if(!r.cookies.empty()) s += "Cookie: " + cookie_header(r) + "\r\n";
	if(!r.content_type.empty()) s += "Content-Type: " + r.content_type + "\r\n";
	if(r.has_body) s += "Content-Length: " + std::to_string(r.body.size()) + "\r\n";
	if(keepalive) s += "Connection: keep-alive\r\n";
	s += "\r\n";
	if(r.has_body) s += r.body;
	return s;
}
// CGI variables a web server in front of SCGI/FastCGI would send
inline Pairs cgi_env(const Req &r,int proto,bool http11){
	Expect x = expect(r,proto,http11,false,0);
	Pairs v;
	v.push_back({"CONTENT_LENGTH",x.env["CONTENT_LENGTH"]});
	if(proto == 1) v.push_back({"SCGI","1"});
	for(auto &kv:x.env) if(kv.first != "CONTENT_LENGTH" && kv.first != "SCGI") v.push_back(kv);
	return v;
}
inline std::string scgi_encode(const Req &r,bool http11){
	std::string h; for(auto &kv:cgi_env(r,1,http11)){ h += kv.first; h += '\0'; h += kv.second; h += '\0'; }
	return std::to_string(h.size()) + ":" + h + "," + (r.has_body ? r.body : "");
}
struct FcgiLayout { std::vector<int> params_chunks, stdin_chunks, paddings; int request_id = 1; bool keep_conn = false; };
inline void fcgi_record(std::string &out,int type,int id,const std::string &content,int pad){
	unsigned char h[8] = {1,(unsigned char)type,(unsigned char)(id>>8),(unsigned char)id,(unsigned char)(content.size()>>8),(unsigned char)content.size(),(unsigned char)pad,0};
	out.append((char*)h,8); out += content; out.append((size_t)pad,'\0');
}
inline void fcgi_len(std::string &o,size_t n){ if(n < 128) o += (char)n; else { o += (char)(0x80 | (n>>24)); o += (char)(n>>16); o += (char)(n>>8); o += (char)n; } }
inline std::string fcgi_pairs(const Pairs &v){ std::string p; for(auto &kv:v){ fcgi_len(p,kv.first.size()); fcgi_len(p,kv.second.size()); p += kv.first; p += kv.second; } return p; }
inline void fcgi_stream(std::string &out,int type,int id,const std::string &data,const std::vector<int> &chunks,const std::vector<int> &pads,size_t &pi){
	size_t off = 0, ci = 0;
	while(off < data.size()){ size_t n = ci < chunks.size() && chunks[ci] > 0 ? (size_t)chunks[ci] : 65535; ci++; if(n > 65535) n = 65535; if(n > data.size()-off) n = data.size()-off;
		int pad = pi < pads.size() ? (pads[pi] & 255) : 0; pi++; fcgi_record(out,type,id,data.substr(off,n),pad); off += n; }
	int pad = pi < pads.size() ? (pads[pi] & 255) : 0; pi++; fcgi_record(out,type,id,"",pad);
}
inline std::string fcgi_encode(const Req &r,bool http11,const FcgiLayout &l){
	std::string out; std::string b(8,'\0'); b[1] = 1; b[2] = l.keep_conn ? 1 : 0;
	fcgi_record(out,1,l.request_id,b,0);
	size_t pi = 0;
	fcgi_stream(out,4,l.request_id,fcgi_pairs(cgi_env(r,2,http11)),l.params_chunks,l.paddings,pi);
	fcgi_stream(out,5,l.request_id,r.has_body ? r.body : "",l.stdin_chunks,l.paddings,pi);
	return out;
}

// ---------------------------------------------------------------- response de-framers
struct Response { bool complete = false; int status = 0; Pairs headers; std::string body; std::string framing_error; bool chunked = false; bool has_length = false; bool until_close = false; bool keep_alive = false; size_t consumed = 0; };
inline std::string lower(std::string s){ for(auto &c:s) if(c >= 'A' && c <= 'Z') c = (char)(c + 32); return s; }
inline std::string hdr(const Response &r,const std::string &n){ for(auto &h:r.headers) if(lower(h.first) == lower(n)) return h.second; return ""; }
inline bool parse_header_block(const std::string &blk,Pairs &out,std::string &err){
	size_t p = 0; while(p < blk.size()){ size_t e = blk.find("\r\n",p); if(e == std::string::npos){ err = "header line without CRLF"; return false; } std::string line = blk.substr(p,e-p); p = e + 2; if(line.empty()) break;
		size_t c = line.find(':'); if(c == std::string::npos){ err = "header line without colon: " + esc(line); return false; } std::string v = line.substr(c+1); while(!v.empty() && v[0] == ' ') v.erase(0,1); out.push_back({line.substr(0,c),v}); }
	return true;
}
// HTTP: parse one response from data (eof = connection closed by the server after these bytes)
inline Response http_parse(const std::string &d,bool eof){
	Response r; size_t he = d.find("\r\n\r\n"); if(he == std::string::npos){ if(eof && !d.empty()) r.framing_error = "connection closed inside the header block"; return r; }
	size_t le = d.find("\r\n"); std::string st = d.substr(0,le);
	if(st.compare(0,5,"HTTP/") != 0 || st.size() < 12){ r.framing_error = "bad status line: " + esc(st.substr(0,60)); r.complete = true; r.consumed = d.size(); return r; }
	r.status = atoi(st.c_str()+9);
	if(!parse_header_block(d.substr(le+2,he+2-(le+2)),r.headers,r.framing_error)){ r.complete = true; r.consumed = d.size(); return r; }
	size_t b = he + 4;
	std::string te = lower(hdr(r,"Transfer-Encoding")), cl = hdr(r,"Content-Length"), conn = lower(hdr(r,"Connection"));
	r.keep_alive = conn == "keep-alive";
	if(te == "chunked"){ r.chunked = true; size_t p = b;
		for(;;){ size_t e = d.find("\r\n",p); if(e == std::string::npos){ if(eof) r.framing_error = "closed inside chunk size"; return r; }
			std::string sz = d.substr(p,e-p); if(sz.empty() || sz.find_first_not_of("0123456789abcdefABCDEF") != std::string::npos){ r.framing_error = "bad chunk size line " + esc(sz.substr(0,20)); r.complete = true; r.consumed = d.size(); return r; }
			size_t n = strtoul(sz.c_str(),nullptr,16); p = e + 2;
			if(n == 0){ if(d.size() < p + 2){ if(eof) r.framing_error = "closed before final CRLF of chunked body"; return r; } if(d.compare(p,2,"\r\n") != 0){ r.framing_error = "last chunk not followed by CRLF"; } r.consumed = p + 2; r.complete = true; return r; }
			if(d.size() < p + n + 2){ if(eof) r.framing_error = "closed inside a chunk"; return r; }
			r.body.append(d,p,n); if(d.compare(p+n,2,"\r\n") != 0){ r.framing_error = "chunk data not followed by CRLF"; r.complete = true; r.consumed = d.size(); return r; } p += n + 2; } }
	if(!cl.empty()){ r.has_length = true; size_t n = strtoull(cl.c_str(),nullptr,10); if(d.size() < b + n){ if(eof) r.framing_error = "closed after " + std::to_string(d.size()-b) + " of Content-Length " + cl + " body bytes"; return r; } r.body = d.substr(b,n); r.consumed = b + n; r.complete = true; if(!r.keep_alive && eof && d.size() > b + n) r.framing_error = "extra bytes after Content-Length body"; return r; }
	r.until_close = true; if(!eof) return r; r.body = d.substr(b); r.consumed = d.size(); r.complete = true; return r;
}
// CGI style response (SCGI, FastCGI STDOUT): "Status: nnn\r\n" + headers + CRLF + body, delimited by end of stream
inline Response cgi_parse(const std::string &d){
	Response r; r.complete = true; r.consumed = d.size(); size_t he = d.find("\r\n\r\n"); if(he == std::string::npos){ r.framing_error = d.empty() ? "empty response" : "no end of header block"; return r; }
	if(!parse_header_block(d.substr(0,he+2),r.headers,r.framing_error)) return r;
	std::string st = hdr(r,"Status"); r.status = st.empty() ? 200 : atoi(st.c_str()); r.body = d.substr(he+4); return r;
}
struct FcgiOut { std::string out, err; bool end = false; int app_status = -1, proto_status = -1; std::string framing_error; size_t records = 0, max_record = 0; bool empty_stdout_seen = false; size_t consumed = 0; std::string get_values_result; };
inline FcgiOut fcgi_demux(const std::string &d,int id,bool eof){
	FcgiOut o; size_t p = 0;
	while(p + 8 <= d.size()){ const unsigned char *h = (const unsigned char*)d.data() + p; size_t cl = (h[4] << 8) | h[5], pl = h[6]; int type = h[1], rid = (h[2] << 8) | h[3];
		if(h[0] != 1){ o.framing_error = "record with version " + std::to_string(h[0]); return o; }
		if(p + 8 + cl + pl > d.size()) break;
		std::string c = d.substr(p+8,cl); p += 8 + cl + pl; o.records++; o.max_record = std::max(o.max_record,cl);
		if(o.end){ o.framing_error = "record after END_REQUEST"; return o; }
		if(type == 10){ o.get_values_result += c; continue; }
		if(rid != id){ o.framing_error = "record for request id " + std::to_string(rid); return o; }
		if(type == 6){ if(o.empty_stdout_seen){ o.framing_error = "STDOUT record after the empty STDOUT record"; return o; } if(cl == 0) o.empty_stdout_seen = true; o.out += c; }
		else if(type == 7) o.err += c;
		else if(type == 3){ if(cl != 8){ o.framing_error = "END_REQUEST body of " + std::to_string(cl) + " bytes"; return o; } o.end = true; o.app_status = ((unsigned char)c[0] << 24) | ((unsigned char)c[1] << 16) | ((unsigned char)c[2] << 8) | (unsigned char)c[3]; o.proto_status = (unsigned char)c[4]; }
		else { o.framing_error = "unexpected record type " + std::to_string(type); return o; } }
	o.consumed = p;
	if(eof && p != d.size() && o.framing_error.empty()) o.framing_error = "stream closed inside a record";
	return o;
}

inline std::string urldecode_path(const std::string &s){ std::string r; for(size_t i=0;i<s.size();i++){ if(s[i] == '%' && i+2 < s.size()+0 && i + 2 <= s.size() - 1 && hexv(s[i+1]) >= 0 && hexv(s[i+2]) >= 0){ r += (char)(hexv(s[i+1])*16 + hexv(s[i+2])); i += 2; } else r += s[i]; } return r; }

} // namespace wire
