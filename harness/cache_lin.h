// History record + Wing-Gong-Lowe linearizability search against the sequential cache model (shared by E3 and E4).
#pragma once
#include <unordered_set>
#include <algorithm>
#include <vector>
#include <functional>
#include "cache_model.h"

struct Op {
	int thread = 0; std::string kind; std::string key; std::set<std::string> trig; int64_t deadline = 0; std::string val; int how = 0;
	// observation
	int only_server = -1;   // network cache with several servers: rise/clear are broadcast server by server, each server is reached at its own moment inside the call
	uint64_t inv = 0, ret = 0; bool hit = false; std::string rval; std::set<std::string> rtrig; int64_t rdl = 0; unsigned rkeys = 0, rtrigs = 0;
	std::string str() const {
		std::string s = "t" + std::to_string(thread) + " [" + std::to_string(inv) + "," + std::to_string(ret) + "] " + kind + "(" + key + ")";
		if(kind == "store") { s += " val=" + val + " dl=" + std::to_string((long)deadline) + " trig={"; for(auto &t:trig) s += t + ","; s += "}"; }
		if(kind == "fetch") s += hit ? " -> HIT " + rval : " -> MISS";
		if(kind == "stats") s += " -> keys=" + std::to_string(rkeys) + " trig=" + std::to_string(rtrigs);
		return s;
	}
};

std::string canon(const CacheModel &m){
	// canonical state: LRU and insertion order as ranks
	std::vector<std::pair<uint64_t,std::string>> l,i; for(auto &kv:m.m){ l.push_back({kv.second.lru,kv.first}); i.push_back({kv.second.ins,kv.first}); }
	std::sort(l.begin(),l.end()); std::sort(i.begin(),i.end());
	std::string s;
	for(auto &kv:m.m){ s += kv.first + "=" + kv.second.val + "@" + std::to_string((long)kv.second.deadline) + "{"; for(auto &t:kv.second.trig) s += t + ","; s += "}"; }
	s += "|L:"; for(auto &x:l) s += x.second + ","; s += "|I:"; for(auto &x:i) s += x.second + ",";
	return s;
}

struct Lin {
	std::vector<Op> &ops; int64_t now; uint64_t states = 0, limit_states; bool inconclusive = false; bool empty_trigger_refused = false;   // network cache: a store whose trigger list holds "" is refused and removes the key
	std::unordered_set<std::string> seen; std::function<unsigned(const std::string&)> server_of;
	Lin(std::vector<Op> &o,int64_t n,uint64_t ls) : ops(o), now(n), limit_states(ls) {}
	int64_t base_now = 0;
	bool apply(CacheModel &m,const Op &o){
		if(o.kind == "tick") return true;   // advances the clock (see search): everything linearized behind it sees the later time
		if(o.kind == "store") { if(empty_trigger_refused && o.trig.count("")) m.remove(o.key); else m.store(o.key,o.val,o.trig,o.deadline,now); return true; }
		if(o.kind == "fetch") { const CacheEntry *e = nullptr; bool h = m.fetch(o.key,now,&e); if(h != o.hit) return false; if(!h) return true;
			if((o.how & 3) != 3 && e->val != o.rval) return false; if((o.how & 3) <= 1 && e->trig != o.rtrig) return false; if(((o.how & 3) == 0 || (o.how & 3) == 2) && e->deadline != o.rdl) return false; return true; }
		if(o.only_server >= 0 && server_of && (o.kind == "rise" || o.kind == "clear")){ for(auto it = m.m.begin(); it != m.m.end();){ if((int)server_of(it->first) == o.only_server && (o.kind == "clear" || it->second.trig.count(o.key))) it = m.m.erase(it); else ++it; } return true; }
		if(o.kind == "rise") { m.rise(o.key); return true; }
		if(o.kind == "remove") { m.remove(o.key); return true; }
		if(o.kind == "clear") { m.clear(); return true; }
		if(o.kind == "stats") { unsigned k,t; m.stats(k,t); return k == o.rkeys && t == o.rtrigs; }
		return true;
	}
	bool search(uint64_t done,const CacheModel &m){
		if(ops.size() > 62){ inconclusive = true; return true; }
		if(done == ((1ULL << ops.size()) - 1)) return true;
		if(++states > limit_states){ inconclusive = true; return true; }
		std::string key = std::to_string(done) + "#" + canon(m);
		if(!seen.insert(key).second) return false;
		// the clock the model sees: the start time plus every clock advance already linearized
		if(!base_now) base_now = now; int64_t tnow = base_now; for(size_t i=0;i<ops.size();i++) if((done >> i & 1) && ops[i].kind == "tick") tnow += ops[i].deadline;
		// minimal ops: not done and no other pending op returned before it was invoked
		uint64_t min_ret = ~0ULL; for(size_t i=0;i<ops.size();i++) if(!(done >> i & 1) && ops[i].ret < min_ret) min_ret = ops[i].ret;
		for(size_t i=0;i<ops.size();i++){
			if(done >> i & 1) continue;
			if(ops[i].inv > min_ret) continue;
			CacheModel n = m; now = tnow;   // deeper levels of the search change it
			if(!apply(n,ops[i])) continue;
			if(search(done | (1ULL << i),n)) return true;
		}
		return false;
	}
};

