// E3 "cache-conc": concurrent use of the thread-shared cache under the simulated thread scheduler (C09).
// Real: mem_cache<thread_settings>, booster::shared_mutex (pthread_rwlock), std::mutex.  Simulated: scheduler, clock.
// Oracles: TSan (tsan variant) / ASan+UBSan (asan variant); completion (no deadlock); linearizability of the
// recorded history against the sequential model (Wing-Gong-Lowe search with memoisation).
#include "cache_storage.h"
#include "base_cache.h"
#include <thread>
#include <memory>
#include <unordered_set>
#include "../sim/runner.h"
#include "cache_lin.h"

namespace {
using cppcms::impl::base_cache;

struct E3 : Engine {
	J generate(uint64_t seed,const std::string &prop,bool thorough) override {
		simk::Rng r; r.seed(seed);
		J p = J::obj(); p["engine"] = "E3"; p["prop"] = prop;
		int nthreads = 2 + r.below(thorough ? 7 : 4); int nkeys = 1 + r.below(3); int ntrig = r.below(3); p["coll"] = (int)r.below(2); if(p.geti("coll")) nkeys = 2 + r.below(4);   // coll: the keys collide in the cache's hash table
		static const int limits[] = {0,0,0,1,2,4}; p["limit"] = limits[r.below(6)];
		p["backend"] = r.below(8) == 0 ? "process" : "thread"; if(p.gets("backend") == "process" && r.below(2)) p["pbig"] = 1;   // pbig: values of 20..120 KB in the 512 KiB segment - the allocator splits and merges its largest blocks, entries are evicted under memory pressure   // process: the shared-memory cache (its own allocator, process-shared locks) used by the threads of one process
		p["sched_seed"] = (unsigned long long)(r.next() >> 8); p["strategy"] = (int)r.below(3); p["pct_depth"] = 1 + (int)r.below(3); p["pct_len"] = 20 + (int)r.below(400);
		int budget = 24 + (thorough ? 8 : 0);   // total ops across threads stays tractable for the linearizability search
		// an optional sequential prefix populates the cache (not part of the concurrent history but part of the model's start state)
		J pre = J::arr(); int npre = r.below(4);
		auto mk = [&](bool allow_all){ J o = J::obj(); unsigned x = r.below(100);
			if(x < 32){ o["op"] = "store"; o["k"] = (int)r.below(nkeys); J tr = J::arr(); int n = ntrig ? r.below(3) : 0; for(int i=0;i<n;i++) tr.push((int)r.below(ntrig)); if(r.below(8)==0) tr.push(100+(int)r.below(nkeys)); o["trig"] = tr; o["dl"] = r.below(8)==0 ? -1 : 1 + (int)r.below(50); }
			else if(x < 72){ o["op"] = "fetch"; o["k"] = (int)r.below(nkeys); o["how"] = (int)r.below(4); }
			else if(x < 82){ o["op"] = "rise"; o["t"] = r.below(3)==0 ? 100+(int)r.below(nkeys) : (ntrig ? (int)r.below(ntrig) : 100); }
			else if(x < 89){ o["op"] = "remove"; o["k"] = (int)r.below(nkeys); }
			else if(x < 92 && allow_all){ o["op"] = "clear"; }
			else if(x < 96 && allow_all){ o["op"] = "stats"; }
			else if(x < 98 && allow_all){ o["op"] = "handle"; }   /* the thread takes a handle of its own to the cache and drops it again (what cache_pool::get() / cache_interface do once per request): the reference count is shared state too */
			else { o["op"] = "fetch"; o["k"] = (int)r.below(nkeys); o["how"] = 0; }
			return o; };
		for(int i=0;i<npre;i++){ J o = mk(false); pre.push(o); }
		p["pre"] = pre;
		J th = J::arr(); int total = 0;
		for(int t=0;t<nthreads;t++){ J ops = J::arr(); int n = 2 + r.below(9); if(total + n > budget) n = std::max(1,budget - total); total += n; for(int i=0;i<n;i++) ops.push(mk(true)); th.push(ops); if(total >= budget) break; }
		// clocked: one more thread whose only operation advances the clock past deadlines while the others run; in the history it is an operation like any other
		// (everything that overlaps it may be placed on either side), deadlines are 0..3 s so that the tick separates "live" from "expired"
		if(p.gets("backend") == "thread" && r.below(4) == 0){ int ts = 1 + (int)r.below(3); for(auto &ops:th.a) for(auto &o:ops.a) if(o.gets("op") == "store") o["dl"] = (int)r.below(4); for(auto &o:pre.a) if(o.gets("op") == "store") o["dl"] = (int)r.below(4); p["pre"] = pre;
			J tk = J::arr(); J o = J::obj(); o["op"] = "tick"; o["s"] = ts; int lead = (int)r.below(4); for(int i=0;i<lead;i++){ J y = J::obj(); y["op"] = "yield"; tk.push(y); } tk.push(o); th.push(tk); p["clocked"] = 1; }
		p["threads"] = th;
		return p;
	}

	// "k0", "j@", "iP", "h`" have the same cppcms string_hash (16*c1+c2 = 1760): in every table size they share one bucket chain
	static bool &colliding(){ static bool v = false; return v; }
	static std::string key_name(int k){ k = ((k % 100) + 100) % 100; static const char *coll[] = {"k0","j@","iP","h`","k0_xybkckgp"}; if(colliding() && k < 5) return coll[k];   /* the fifth has "k0" as a proper prefix and the same hash */ return "k" + std::to_string(k); }
	static std::string trig_name(int t){ t = ((t % 1000) + 1000) % 1000; if(colliding() && t == 1) return "t0_cybbclep"; return t >= 100 ? key_name(t-100) : "t" + std::to_string(t); }

	// the shared-memory segment is a process-wide static that is never released, and what earlier runs left in it (allocator layout, table sizes) changes later
	// behaviour under memory pressure: every process-shared run executes in a child forked from the pristine parent, like E2's
	bool fork_per_run(const J &plan) override { return plan.gets("backend") == "process"; }
	RunResult run(const J &plan) override {
		RunResult res; colliding() = plan.geti("coll") != 0;
		simk::Params sp; sp.sched_seed = (uint64_t)plan.geti("sched_seed",1); sp.fault_seed = 1; sp.strategy = (int)(((plan.geti("strategy") % 3) + 3) % 3);
		sp.pct_depth = (int)std::max<int64_t>(1,std::min<int64_t>(plan.geti("pct_depth",2),8)); sp.pct_len = (int)std::max<int64_t>(1,plan.geti("pct_len",200)); sp.tick_us = 0; sp.text_trace = plan.geti("text_trace");
		const J &ta = plan.get("tape"); for(size_t i=0;i<ta.size();i++) sp.tape.push_back((uint32_t)ta.a[i].as_int());
		simk::begin(sp);
		unsigned limit = (unsigned)std::max<int64_t>(0,std::min<int64_t>(plan.geti("limit"),1000));
		int64_t now = simk::now_us()/1000000;
		std::vector<Op> hist; CacheModel start; start.limit = limit;
		uint64_t clock = 0;
		int opseq = 0;
		auto decode = [&](const J &o,int thread){ Op op; op.thread = thread; op.kind = o.gets("op"); op.how = (int)o.geti("how");
			if(op.kind == "rise") op.key = trig_name((int)o.geti("t")); else op.key = key_name((int)o.geti("k"));
			if(op.kind == "tick") op.deadline = std::max<int64_t>(0,std::min<int64_t>(o.geti("s"),1000));
			if(op.kind == "store"){ const J &tr = o.get("trig"); for(size_t j=0;j<tr.size();j++) op.trig.insert(trig_name((int)tr.a[j].as_int())); op.deadline = now + o.geti("dl"); op.val = "v" + std::to_string(thread) + "." + std::to_string(opseq); if(plan.gets("backend") == "process"){ if(plan.geti("pbig")) op.val += std::string(20000 + (size_t)(opseq * 7919 % 100000),(char)('a' + opseq % 26)); else if(opseq & 1) op.val += std::string(20 + opseq % 50,'.'); } }   // beyond the small-string size: the value is copied into the shared segment before the cache lock is taken
			opseq++; return op; };
		auto exec = [&](base_cache &c,Op &op){
			if(op.kind == "yield"){ simk::yield(); return; }
			op.inv = ++clock;
			if(op.kind == "tick") simk::advance_us(op.deadline * 1000000);
			if(op.kind == "store") c.store(op.key,op.val,op.trig,op.deadline);
			else if(op.kind == "fetch"){ time_t dl = 0;
				switch(op.how & 3){ case 0: op.hit = c.fetch(op.key,&op.rval,&op.rtrig,&dl,0); break; case 1: op.hit = c.fetch(op.key,op.rval,&op.rtrig); break; case 2: op.hit = c.fetch(op.key,&op.rval,0,&dl,0); break; default: op.hit = c.fetch(op.key,0,0,0,0); }
				op.rdl = dl; }
			else if(op.kind == "rise") c.rise(op.key);
			else if(op.kind == "remove") c.remove(op.key);
			else if(op.kind == "clear") c.clear();
			else if(op.kind == "stats") c.stats(op.rkeys,op.rtrigs);
			else if(op.kind == "handle"){ booster::intrusive_ptr<base_cache> h(&c); simk::yield(); }
			op.ret = ++clock;
		};
		size_t nthreads = 0; uint64_t overlap = 0; std::map<std::string,std::set<std::string>> pre_vals;
		{
			// the shared-memory cache lives in a process-wide segment that is never released: one object per limit value and worker process, cleared before each run
			// (512 KiB: with values of a few bytes memory pressure - whose outcomes are not predictable from outside - never comes into play and the history is checked for
			// linearizability; "pbig" runs use large values: there the race detector, the sanitizers, completion and "a fetch returns a value stored under that key" decide)
			bool process = plan.gets("backend") == "process"; if(process) res.counters["process_shared_runs"] = 1;
			static std::map<unsigned,booster::intrusive_ptr<base_cache>> pcaches;
			booster::intrusive_ptr<base_cache> cache;
			if(process){ auto it = pcaches.find(limit); if(it == pcaches.end()){ simk::TsanIgnore ign; it = pcaches.insert(std::make_pair(limit,cppcms::impl::process_cache_factory(512u << 10,limit))).first; } for(auto &kv:pcaches) kv.second->clear();   /* all of them share the one segment */ cache = it->second; }
			else cache = cppcms::impl::thread_cache_factory(limit);
			// sequential prefix, mirrored into the model's start state
			const J &pre = plan.get("pre");
			for(size_t i=0;i<pre.size();i++){ Op op = decode(pre.a[i],-1); exec(*cache,op);
				if(op.kind == "store") pre_vals[op.key].insert(op.val);
				if(op.kind == "store") start.store(op.key,op.val,op.trig,op.deadline,now); else if(op.kind == "rise") start.rise(op.key); else if(op.kind == "remove") start.remove(op.key);
				else if(op.kind == "fetch"){ const CacheEntry *e; bool h = start.fetch(op.key,now,&e); if(h != op.hit || (h && (op.how&3)!=3 && e->val != op.rval)) res.fail("sequential-mismatch","prefix op " + op.str() + " disagrees with the model"); } }
			const J &th = plan.get("threads"); nthreads = std::min<size_t>(th.size(),16);
			std::vector<std::vector<Op>> per(nthreads);
			for(size_t t=0;t<nthreads;t++) for(size_t i=0;i<th.a[t].size() && i<16;i++) per[t].push_back(decode(th.a[t].a[i],(int)t));
			std::vector<std::thread> thr;
			for(size_t t=0;t<nthreads;t++) thr.emplace_back([&,t]{ for(auto &op:per[t]) exec(*cache,op); });
			for(auto &t:thr) t.join();
			for(auto &v:per) for(auto &o:v) if(o.kind != "yield") hist.push_back(o);
			if(plan.geti("clocked")) res.counters["clocked_runs"] = 1;
			cache = 0;
		}
		res.hash = simk::trace_hash();
		res.counters["switches"] = (long long)simk::stats().switches; res.counters["steps"] = (long long)simk::stats().steps;
		res.counters["rw_contended"] = (long long)simk::stats().rw_contended; res.counters["mutex_contended"] = (long long)simk::stats().mutex_contended;
		res.counters["threads"] = (long long)nthreads; res.counters["ops"] = (long long)hist.size();
		res.counters[std::string("strategy_") + (sp.strategy == 0 ? "random" : sp.strategy == 1 ? "pct" : "run_to_block")] = 1;
		res.counters["sim_seconds"] = (long long)((simk::now_us() - sp.start_time_s*1000000LL)/1000000);
		simk::end();
		if(hist.size() > 40) hist.resize(40);
		for(size_t i=0;i<hist.size();i++) for(size_t j=i+1;j<hist.size();j++) if(hist[i].thread != hist[j].thread && hist[i].inv < hist[j].ret && hist[j].inv < hist[i].ret && hist[i].key == hist[j].key) overlap++;
		res.counters["overlapping_same_key_pairs"] = (long long)overlap;
		if(res.ok && plan.geti("pbig")){ res.counters["process_shared_big_value_runs"] = 1;
			std::map<std::string,std::set<std::string>> stored; { const J &pre = plan.get("pre"); (void)pre; } for(auto &o:hist) if(o.kind == "store") stored[o.key].insert(o.val);
			for(auto &o:hist) if(o.kind == "fetch" && o.hit && (o.how & 3) != 3 && !stored[o.key].count(o.rval) && !pre_vals[o.key].count(o.rval)){ res.fail("foreign-or-torn-value","fetch(" + o.key + ") returned " + std::to_string(o.rval.size()) + " bytes that no store put under that key (process-shared cache under memory pressure)"); break; } }
		else if(res.ok){
			Lin lin(hist,now,2000000);
			bool ok = lin.search(0,start);
			res.counters["lin_states"] = (long long)lin.states;
			if(lin.inconclusive) res.counters["lin_inconclusive"] = 1;
			else if(!ok){ std::string h; std::vector<Op> sorted = hist; std::sort(sorted.begin(),sorted.end(),[](const Op&a,const Op&b){ return a.inv < b.inv; }); for(auto &o:sorted) h += "  " + o.str() + "\n";
				res.fail("not-linearizable","no sequential order of the recorded operations, consistent with real time, explains the results (limit=" + std::to_string(limit) + ", start state " + canon(start) + "):\n" + h); }
		}
		if(overlap) res.nt = res.hash ? res.hash : 1;
		return res;
	}
};
}
int main(int argc,char **argv){ E3 e; return runner::main_impl(argc,argv,e,"E3"); }
