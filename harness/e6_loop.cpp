// E6 "loop": booster::aio::io_service (all three reactors), deadline_timer, stream_socket and cppcms::thread_pool
// under the simulated thread scheduler, clock and kernel readiness (C17).
// Oracle: every handler is a counting functor: invoked exactly once, on the loop thread, with success only when
// the event happened (timer: not before its deadline; descriptor: readable data present) else with a cancel/error code;
// pool jobs at most once, exactly once unless cancelled / posted after stop; functor instances all destroyed.
#include <booster/aio/io_service.h>
#include <booster/aio/reactor.h>
#include <booster/aio/deadline_timer.h>
#include <booster/aio/stream_socket.h>
#include <booster/aio/aio_category.h>
#include <booster/aio/buffer.h>
#include <booster/posix_time.h>
#include <booster/system_error.h>
#include <cppcms/thread_pool.h>
#include <booster/aio/acceptor.h>
#include <booster/aio/endpoint.h>
#include <netinet/in.h>
#include <arpa/inet.h>
#include <thread>
#include <memory>
#include <sys/socket.h>
#include <sys/ioctl.h>
#include <unistd.h>
#include <fcntl.h>
#include "../sim/runner.h"

namespace {
namespace aio = booster::aio;
using booster::ptime;

struct HRec {
	std::string kind; int count = 0; int thread = -2; int64_t t_us = 0; int code = 0; std::string cat; size_t n = 0;
	int64_t deadline_us = -1; int fd = -1; int dir = 0; uint64_t armed_seq = 0; size_t readable_at_call = 0; bool posted_after_stop = false; bool cancel_ok = false; bool threw = false;
	size_t want = 0; std::string data; int life = 1; bool aba = false; int64_t t_cancel_us = -1; bool must_cancel = false, in_call = false, ran_in_call = false, closed_dev = false;   /* must_cancel: cancel() was called while this timer wait was pending and not yet due */   // aba: wait on a descriptor whose number was re-used while the cancel of the previous device was still deferred (known finding)
};
struct World {
	std::vector<HRec> h; int live_functors = 0; int loop_thread = -1, loop_thread2 = -1; bool stop_called = false; bool pair_starved = false; int pair_waits = 0; int loop_restarts = 0;
	int dev_cycles = 0, dev_reused = 0, dev_stale = 0, dev_attached = 0, burst_timers = 0, pipe_waits = 0, victim_cancels = 0; std::vector<int> pipe_fds; std::string dup_timer_id; std::map<int,int> stale_fd;   /* descriptor number -> handler of the device closed by a non-loop thread whose cancel the loop may not have applied yet */ std::map<std::pair<int,int>,bool> armed; std::set<int> xcancelled_fds; std::vector<std::pair<int,uint64_t>> xcancels; uint64_t evseq = 0;
	int add(const std::string &k){ simk::TsanIgnore ign; h.emplace_back(); h.back().kind = k; return (int)h.size()-1; }
};
World *W = nullptr;

// counting functor; copies are tracked so that leaks / double destruction of the stored callable are visible
struct Fn {
	int id;
	explicit Fn(int i) : id(i) { W->live_functors++; }
	Fn(const Fn &o) : id(o.id) { W->live_functors++; }
	~Fn() { W->live_functors--; }
	void note(int code,const std::string &cat,size_t n) const { simk::hb_release(&W->h[id]); simk::TsanIgnore ign; simk::tracef("handler #%d invoked code=%d n=%zu",id,code,n); HRec &r = W->h[id]; r.count++; r.thread = simk::self_id(); r.t_us = simk::now_us(); r.code = code; r.cat = cat; r.n = n; }
	void operator()() const { note(0,"",0); }
	void operator()(booster::system::error_code const &e) const {
		simk::TsanIgnore ign;
		HRec &r = W->h[id];
		if(r.fd >= 0){ W->armed[{r.fd,r.dir}] = false;
			if(r.dir == aio::io_events::in && !e){ int nb = 0; ioctl(r.fd,FIONREAD,&nb); r.readable_at_call = nb; char buf[4096]; while(::read(r.fd,buf,sizeof(buf)) > 0){} } }
		note(e.value(),e ? e.category().name() : "",0);
	}
	void operator()(booster::system::error_code const &e,size_t n) const { { simk::TsanIgnore ign; if(W->h[id].in_call) W->h[id].ran_in_call = true; } note(e.value(),e ? e.category().name() : "",n); }
};

// a posted handler that throws: the exception leaves run(); the documentation allows calling run() again, and the handler has run (once)
struct LoopThrow {};
struct ThrowingFn { Fn f; explicit ThrowingFn(int i) : f(i) {} void operator()() const { f(); throw LoopThrow(); } };

struct E6 : Engine {
	J generate(uint64_t seed,const std::string &prop,bool thorough) override {
		simk::Rng r; r.seed(seed);
		J p = J::obj(); p["engine"] = "E6"; p["prop"] = prop;
		p["sched_seed"] = (unsigned long long)(r.next() >> 8); p["fault_seed"] = (unsigned long long)(r.next() >> 8);
		p["strategy"] = (int)r.below(3); p["pct_depth"] = 1 + (int)r.below(3); p["pct_len"] = 50 + (int)r.below(1500);
		p["tick_us"] = r.below(3) == 0 ? 20 : (r.below(2) ? 1 : 200);   // never 0: the loop polls with a 0 ms timeout during the last millisecond before a timer, which needs time to pass
		p["p_eintr"] = r.below(3) == 0 ? (int)r.below(60) : 0;
		bool pool = r.below(4) == 0;
		p["mode"] = pool ? "pool" : "loop";
		if(pool){
			p["workers"] = 1 + (int)r.below(4); int nt = 1 + r.below(4); J th = J::arr();
			for(int t=0;t<nt;t++){ J ops = J::arr(); int n = 1 + r.below(thorough ? 14 : 8);
				for(int i=0;i<n;i++){ J o = J::obj(); unsigned x = r.below(100);
					if(x < 60){ o["op"] = "post"; o["throws"] = r.below(6) == 0; o["work"] = (int)r.below(3); }
					else if(x < 85){ o["op"] = "cancel"; o["i"] = (int)r.below(8); }
					else { o["op"] = "yield"; }
					ops.push(o); }
				th.push(ops); }
			// one pair of dependent jobs per plan: the first waits (on a worker) until the second has run; with two or more workers and every other job finite the second must get a worker
			if(p.geti("workers") >= 2 && r.below(2)){ J &ops = th.a[r.below(nt)]; J o = J::obj(); o["op"] = "pair"; ops.a.insert(ops.a.begin() + r.below(ops.a.size() + 1),o); }
			p["threads"] = th; p["stop_race"] = r.below(3) == 0;
			return p;
		}
		p["reactor"] = (int)r.below(3);       // 0 epoll, 1 poll, 2 select
		int npairs = r.below(5); p["pairs"] = npairs;
		int nprod = 1 + r.below(4); J th = J::arr();
		bool xthread = r.below(8) == 0;   // one run in eight cancels descriptor waits directly from a foreign thread
		bool throwing = r.below(5) == 0;  // one run in five has posted handlers that throw out of run(); the loop thread calls run() again
		// operations issued before run() is called for the first time: everything is deferred to the queue, in order; a wait armed and cancelled there must be completed (canceled) as soon as the loop runs
		if(npairs && r.below(4) == 0){ J pre = J::arr(); int n = 1 + r.below(5); for(int i=0;i<n;i++){ J o = J::obj(); unsigned x = r.below(10); if(x < 4){ o["op"] = "io"; o["p"] = (int)r.below(npairs); o["dir"] = r.below(4) == 0 ? 1 : 0; } else if(x < 8){ o["op"] = "cancel_io"; o["p"] = (int)r.below(npairs); } else { o["op"] = "post"; } pre.push(o); } p["pre"] = pre; }
		for(int t=0;t<nprod;t++){ J ops = J::arr(); int n = 1 + r.below(thorough ? 16 : 9);
			for(int i=0;i<n;i++){ J o = J::obj(); unsigned x = r.below(100);
				if(x < 25){ o["op"] = "post"; if(throwing && r.below(4) == 0) o["throws"] = 1; }
				else if(x < 45){ o["op"] = "timer"; unsigned y = r.below(10); o["ms"] = y < 3 ? 0 : y < 5 ? -5 : y < 8 ? (int)r.below(20) : (int)(10 * (1 + r.below(3))); if(r.below(6) == 0) o["ms"] = (int)(60000 + r.below(3000000)); }   /* one in six is far away (1..50 minutes): the loop sleeps long, what a cancel of ANOTHER timer has to interrupt */
				else if(x < 57){ o["op"] = "cancel_timer"; o["i"] = (int)r.below(6); }
				else if(x < 70 && npairs){ o["op"] = "io"; o["p"] = (int)r.below(npairs); o["dir"] = r.below(4) == 0 ? 1 : 0; }
				else if(x < 78 && npairs){ o["op"] = xthread ? "xcancel_io" : "cancel_io"; o["p"] = (int)r.below(npairs); }
				else if(x < 90 && npairs){ o["op"] = "ready"; o["p"] = (int)r.below(npairs); o["n"] = 1 + (int)r.below(50); }
				else if(x < 93){ o["op"] = "sleep"; o["ms"] = (int)r.below(25); }
				else if(x < 97){ o["op"] = "dev"; o["early"] = (int)r.below(3); o["dir2"] = (int)r.below(2); o["gap"] = (int)r.below(3); o["settle"] = (int)(r.below(3) != 0); o["xfer"] = r.below(2) ? (int)(1 + r.below(50)) : 0; o["attach"] = (int)(r.below(4) == 0); }   /* attach: the first device does not own its descriptor (attach()); close() must cancel its wait all the same, the descriptor is closed by the thread itself */   // a device owned by this thread: armed, closed by this thread, then a new device on the re-used descriptor number
				else if(x == 97 && r.below(2) == 0){ o["op"] = "pipe_hup"; o["data"] = (int)(r.below(3) == 0); }   /* a wait for readability on the read end of a pipe whose only writer goes away without writing: the kernel reports a hang-up with no "in" bit */
				else if(x == 98 && r.below(2) == 0){ o["op"] = "io_bad"; o["dir"] = (int)r.below(2); }   /* a wait armed on something that is no descriptor: the error is a completion like any other - once, on the loop thread */
				else if(x == 99 && r.below(12) == 0){ o["op"] = "burst"; o["n"] = 700 + (int)r.below(700); o["keep"] = (int)r.below(3); o["victims"] = (int)r.below(5); }   /* hundreds of timers pending at once on one io_service (a busy server: one time-out per connection) */
				else { o["op"] = "yield"; }
				ops.push(o); }
			th.push(ops); }
		p["threads"] = th;
		// timers/chains armed from inside the loop thread through deadline_timer / stream_socket objects
		J ch = J::arr(); int nch = r.below(3);
		for(int i=0;i<nch;i++){ J c = J::obj(); unsigned x = r.below(3);
			if(r.below(5) == 0){   /* connection set-up as a descriptor wait: an acceptor that keeps accepting while peers connect (and, now and then, finds the connection gone although the listening socket was reported readable), or a non-blocking connect that completes later */
				if(r.below(2)){ c["kind"] = "accept"; c["times"] = 1 + (int)r.below(4); c["conns"] = (int)r.below(5); c["gap_ms"] = (int)r.below(8); c["cancel_after_ms"] = r.below(3) == 0 ? (int)r.below(30) : -1; c["close"] = (int)r.below(2); }
				else { c["kind"] = "connect"; c["listen"] = (int)r.below(3); c["cancel_after_ms"] = r.below(4) == 0 ? (int)r.below(10) : -1; c["close"] = (int)r.below(2); }
				ch.push(c); continue; }
			if(x == 0 && r.below(2)){ c["kind"] = "ptimer"; c["ms"] = 1 + (int)r.below(12); c["times"] = 2 + (int)r.below(5); c["cancel_after_ms"] = r.below(4) ? (int)r.below(60) : -1; }   // periodic - the handler re-arms the same timer from inside, a cancel has to stop the wait pending at that moment
			else if(x == 0){ c["kind"] = "dtimer"; c["ms"] = (int)r.below(30); c["cancel_after_ms"] = r.below(2) ? (int)r.below(40) : -1; }
			else if(x == 1){ c["kind"] = "read"; c["want"] = 1 + (int)r.below(3000); c["feed"] = (int)r.below(4000); c["chunk"] = 1 + (int)r.below(700); c["close_peer"] = r.below(3) == 0; c["cancel_after_ms"] = r.below(3) == 0 ? (int)r.below(20) : -1; c["close"] = (int)r.below(2); c["eof_first"] = r.below(5) == 0; }   /* eof_first (round 9): the peer has closed before async_read() is started - its first immediate attempt already ends with eof */
			else { c["kind"] = "write"; c["len"] = 1 + (int)r.below(20000); c["cap"] = 1 + (int)r.below(3000); c["drain"] = 1 + (int)r.below(2000); c["cancel_after_ms"] = r.below(4) == 0 ? (int)r.below(20) : -1; c["close"] = (int)r.below(2); c["gone_first"] = r.below(6) == 0; c["close_mid"] = r.below(4) == 0 ? (int)r.below(6000) : -1; }   /* gone_first (round 9): the peer has closed before async_write() is started - its first immediate attempt already fails */
			ch.push(c); }
		p["chains"] = ch;
		p["p_inprogress"] = r.below(3) ? 700 : 0;
		p["p_short_read"] = r.below(2) ? (int)r.below(400) : 0; p["p_short_write"] = r.below(2) ? (int)r.below(400) : 0; p["p_spurious"] = r.below(4) == 0 ? (int)r.below(100) : 0; { bool acc = false; for(auto &c:ch.a) if(c.gets("kind") == "accept") acc = true; if(acc && r.below(2)) p["p_spurious"] = 50 + (int)r.below(200); }
		p["stop_race"] = r.below(5) == 0;
		// a second life: after stop() (called by a foreign thread while the loop is idle) and reset() the service runs again and must serve other threads as before
		if(!p.geti("stop_race") && r.below(4) == 0){ J l2 = J::arr(); int n = 1 + r.below(5); for(int i=0;i<n;i++){ J o = J::obj(); unsigned x = r.below(10); if(x < 4) o["op"] = "post"; else if(x < 7){ o["op"] = "timer"; o["ms"] = (int)r.below(15); } else if(x < 9 && npairs){ o["op"] = "io"; o["p"] = (int)r.below(npairs); } else { o["op"] = "sleep"; o["ms"] = 1 + (int)r.below(10); } l2.push(o); } p["life2"] = l2; p["life2_idle_ms"] = (int)r.below(3) * 5; }
		return p;
	}

	// ---------------------------------------------------------------- thread pool
	void run_pool(const J &plan,RunResult &res,World &w){
		int workers = (int)std::max<int64_t>(1,std::min<int64_t>(plan.geti("workers",1),8));
		bool stop_race = plan.geti("stop_race");
		const J &th = plan.get("threads"); size_t nt = std::min<size_t>(th.size(),8);
		std::vector<std::vector<int>> ids(nt),hids(nt); int posted_before_stop_done = 0;
		{
			cppcms::thread_pool pool(workers);
			std::vector<std::thread> thr;
			std::map<int,int> job_of_id;   // pool id -> handler record
			bool pair_used = false;
			for(size_t t=0;t<nt;t++) thr.emplace_back([&,t]{
				const J &ops = th.a[t];
				for(size_t i=0;i<ops.size() && i<32;i++){ const J &o = ops.a[i]; std::string op = o.gets("op");
					if(op == "post"){ int h = w.add("job"); bool throws = o.geti("throws"); int work = (int)o.geti("work"); w.h[h].posted_after_stop = w.stop_called;
						Fn f(h);
						int id = pool.post([f,throws,work]{ for(int k=0;k<work;k++) simk::yield(); f(); if(throws){ W->h[f.id].threw = true; throw std::runtime_error("job failed on purpose"); } });
						ids[t].push_back(id); hids[t].push_back(h); }
					else if(op == "pair" && workers >= 2 && !pair_used){ pair_used = true; int h1 = w.add("job"), h2 = w.add("job"); w.h[h1].posted_after_stop = w.h[h2].posted_after_stop = w.stop_called; Fn f1(h1), f2(h2);
						pool.post([f1,h2]{ f1(); W->pair_waits++; if(!simk::block([h2]{ return W->h[h2].count > 0; },simk::now_us() + 30LL*1000000,"pair-wait")) W->pair_starved = true; });
						pool.post([f2]{ f2(); }); }   // neither id is offered to cancel()
					else if(op == "cancel"){ if(!ids[t].empty()){ size_t k = (size_t)(o.geti("i") % (int64_t)ids[t].size()); bool ok = pool.cancel(ids[t][k]); if(ok){ if(w.h[hids[t][k]].cancel_ok) res.fail("pool-cancel-twice","cancel succeeded twice for one job"); w.h[hids[t][k]].cancel_ok = true; } } }
					else simk::yield();
				} });
			if(stop_race){ w.stop_called = true; pool.stop(); }
			for(auto &t:thr) t.join();
			if(!stop_race){
				// the pool keeps running: every job not successfully cancelled must run
				bool done = simk::block([&]{ for(auto &r:w.h) if(!r.cancel_ok && r.count == 0) return false; return true; },simk::now_us()+3600LL*1000000,"wait-jobs");
				if(!done){ std::string m; for(size_t i=0;i<w.h.size();i++) if(!w.h[i].cancel_ok && w.h[i].count == 0) m += " job#" + std::to_string(i); res.fail("pool-job-never-ran","jobs posted to a running pool and not cancelled never ran:" + m); }
			}
			w.stop_called = true; pool.stop();
		}
		if(w.pair_starved && !stop_race) res.fail("pool-job-starved-with-idle-worker","a job waited 30 simulated seconds on its worker for the job posted right after it, which never got one of the other " + std::to_string(workers - 1) + " workers although every other job is finite");
		res.counters["pool_dependent_pairs"] = w.pair_waits;
		int ran = 0, cancelled = 0, threw = 0;
		for(size_t i=0;i<w.h.size();i++){ HRec &r = w.h[i];
			if(r.count > 1) res.fail("handler-ran-twice","pool job #" + std::to_string(i) + " ran " + std::to_string(r.count) + " times");
			if(r.cancel_ok && r.count > 0) res.fail("cancelled-job-ran","pool job #" + std::to_string(i) + " was reported cancelled but ran");
			if(r.count && r.thread == 0) res.fail("wrong-thread","pool job ran on the posting thread");
			ran += r.count; cancelled += r.cancel_ok; threw += r.threw; }
		res.counters["pool_jobs"] = (long long)w.h.size(); res.counters["pool_ran"] = ran; res.counters["pool_cancelled"] = cancelled; res.counters["pool_threw"] = threw; res.counters["pool_stop_race"] = stop_race;
		(void)posted_before_stop_done;
	}

	// ---------------------------------------------------------------- event loop
	struct Chain { int64_t close_mid = -1; /* write chains: the peer closes once it has drained this many bytes */ std::unique_ptr<aio::acceptor> acc; std::vector<std::unique_ptr<aio::stream_socket>> accepted; std::vector<int> acc_hids; int port = 0, conns = 0, conns_made = 0, conn_gap_ms = 0, lfd = -1, listen_mode = 0, got = 0; bool acc_closed = false; /* accept / connect chains */ int period_ms = 0, times_left = 0, cur_hid = -1; bool close_instead = false, closed = false; std::string kind; std::unique_ptr<aio::stream_socket> sock; std::unique_ptr<aio::deadline_timer> timer, canceler; int hid = -1; int peer = -1; std::string buf; std::string sent; size_t fed = 0, feed = 0, chunk = 1, drain = 1; bool close_peer = false; std::string drained; int cancel_after = -1; bool peer_closed = false; };

	void run_loop(const J &plan,RunResult &res,World &w){
		int rt = (int)(((plan.geti("reactor") % 3) + 3) % 3); int reactor_type = rt == 0 ? aio::reactor::use_epoll : rt == 1 ? aio::reactor::use_poll : aio::reactor::use_select;
		int npairs = (int)std::max<int64_t>(0,std::min<int64_t>(plan.geti("pairs"),8));
		bool stop_race = plan.geti("stop_race");
		std::vector<std::pair<int,int>> pairs;
		const J &th = plan.get("threads"); size_t nt = std::min<size_t>(th.size(),8);
		const J &chs = plan.get("chains");
		std::vector<std::unique_ptr<Chain>> chains; bool env_exhausted = false;
		{
			aio::io_service srv(reactor_type);
			for(int i=0;i<npairs;i++){ int sv[2]; socketpair(AF_UNIX,SOCK_STREAM,0,sv); fcntl(sv[0],F_SETFL,O_NONBLOCK); fcntl(sv[1],F_SETFL,O_NONBLOCK); pairs.push_back({sv[0],sv[1]}); }
			std::vector<int> pre_cancelled;   // handler records of waits armed and then cancelled before run()
			{ const J &pre = plan.get("pre"); for(size_t i=0;i<pre.size() && i<16 && npairs;i++){ const J &o = pre.a[i]; std::string op = o.gets("op"); int p = (int)(((o.geti("p") % npairs) + npairs) % npairs); int fd = pairs[p].first;
				if(op == "post"){ int h = w.add("post"); srv.post(Fn(h)); }
				else if(op == "io"){ int dir = o.geti("dir") ? aio::io_events::out : aio::io_events::in; if(!w.armed[{fd,dir}]){ w.armed[{fd,dir}] = true; int h = w.add(dir == aio::io_events::in ? "io_in" : "io_out"); w.h[h].fd = fd; w.h[h].dir = dir; srv.set_io_event(fd,dir,Fn(h)); w.h[h].armed_seq = ++w.evseq; } }
				else if(op == "cancel_io"){ for(size_t k=0;k<w.h.size();k++) if(w.h[k].fd == fd && w.h[k].count == 0 && std::find(pre_cancelled.begin(),pre_cancelled.end(),(int)k) == pre_cancelled.end()) pre_cancelled.push_back((int)k); srv.cancel_io_events(fd); } } }
			std::thread loop([&]{ w.loop_thread = simk::self_id(); for(;;){ try { srv.run(); break; } catch(LoopThrow const &){ simk::TsanIgnore ign; w.loop_restarts++; } } });
			if(!pre_cancelled.empty() && !stop_race){
				for(int k=0;k<2;k++){ int sn = w.add("post"); srv.post(Fn(sn)); simk::block([&w,sn]{ return w.h[sn].count > 0; },simk::now_us()+3600LL*1000000,"pre-sentinel"); }   // the canceler queues the completion behind the first sentinel
				for(int h:pre_cancelled) if(w.h[h].count == 0){ res.fail("io-cancel-before-run-lost",w.h[h].kind + "#" + std::to_string(h) + ": set_io_event() and then cancel_io_events() were called before run(); the loop has since run two posted handlers but the cancelled wait was not completed"); break; }
				res.counters["waits_cancelled_before_run"] = (long long)pre_cancelled.size(); }
			// chains are set up on the loop thread (device objects are not thread safe)
			for(size_t i=0;i<chs.size() && i<4;i++){
				const J &c = chs.a[i]; auto ch = std::unique_ptr<Chain>(new Chain); ch->kind = c.gets("kind"); ch->cancel_after = (int)c.geti("cancel_after_ms",-1); ch->close_instead = c.geti("close") != 0;
				Chain *cp = ch.get();
				if(ch->kind == "dtimer"){
					int ms = (int)std::max<int64_t>(0,std::min<int64_t>(c.geti("ms"),100000)); ch->hid = w.add("dtimer");
					srv.post([&srv,&w,cp,ms]{ cp->timer.reset(new aio::deadline_timer(srv)); cp->timer->expires_from_now(ptime::milliseconds(ms)); w.h[cp->hid].deadline_us = simk::now_us() + ms*1000LL; cp->timer->async_wait(Fn(cp->hid));
						if(cp->cancel_after >= 0){ cp->canceler.reset(new aio::deadline_timer(srv)); cp->canceler->expires_from_now(ptime::milliseconds(cp->cancel_after)); cp->canceler->async_wait([cp](booster::system::error_code const &){ cp->timer->cancel(); }); } });
				}
				else if(ch->kind == "ptimer"){
					ch->period_ms = (int)std::max<int64_t>(1,std::min<int64_t>(c.geti("ms",5),1000)); ch->times_left = (int)std::max<int64_t>(1,std::min<int64_t>(c.geti("times",3),8)); ch->hid = -1;
					// every async_wait gets its own handler record; the handler re-arms the same deadline_timer object from inside itself
					struct Rearm { static void arm(Chain *cp,World *w){ int h = w->add("ptimer"); cp->cur_hid = h; cp->timer->expires_from_now(ptime::milliseconds(cp->period_ms)); w->h[h].deadline_us = simk::now_us() + cp->period_ms*1000LL;
						Fn fn(h); cp->timer->async_wait([cp,w,fn](booster::system::error_code const &e){ fn(e); if(!e && --cp->times_left > 0) arm(cp,w); }); } };
					World *wp = &w;
					srv.post([&srv,wp,cp]{ cp->timer.reset(new aio::deadline_timer(srv)); Rearm::arm(cp,wp);
						if(cp->cancel_after >= 0){ cp->canceler.reset(new aio::deadline_timer(srv)); cp->canceler->expires_from_now(ptime::milliseconds(cp->cancel_after)); cp->canceler->async_wait([cp,wp](booster::system::error_code const &){
							// the wait pending now (if its deadline is still ahead it cannot have been queued as fired) must be completed with a cancellation
							if(cp->cur_hid >= 0 && wp->h[cp->cur_hid].count == 0 && wp->h[cp->cur_hid].deadline_us > simk::now_us()) wp->h[cp->cur_hid].must_cancel = true;
							cp->timer->cancel(); }); } });
				}
				else if(ch->kind == "accept"){
					ch->port = 7300 + (int)i; ch->times_left = (int)std::max<int64_t>(1,std::min<int64_t>(c.geti("times",1),6)); ch->conns = (int)std::max<int64_t>(0,std::min<int64_t>(c.geti("conns"),8)); ch->conn_gap_ms = (int)std::max<int64_t>(0,std::min<int64_t>(c.geti("gap_ms"),100)); ch->hid = -1;
					// every async_accept gets its own handler record and its own target socket; a successful handler arms the next accept from inside itself
					struct Rearm { static void arm(Chain *cp,World *w,aio::io_service *sp){ int h = w->add("aaccept"); cp->acc_hids.push_back(h); cp->cur_hid = h; cp->accepted.emplace_back(new aio::stream_socket(*sp)); aio::stream_socket *target = cp->accepted.back().get();
						Fn fn(h); cp->acc->async_accept(*target,[cp,w,sp,fn,target,h](booster::system::error_code const &e){ { simk::TsanIgnore ign; w->h[h].want = (!e && target->native() >= 0) ? 1 : 0; w->h[h].closed_dev = cp->acc_closed; if(!e) cp->got++; } fn(e); if(!e && --cp->times_left > 0 && !cp->acc_closed) arm(cp,w,sp); }); } };
					World *wp = &w; aio::io_service *sp = &srv;
					srv.post([sp,wp,cp]{ cp->acc.reset(new aio::acceptor(*sp)); cp->acc->open(aio::pf_inet); cp->acc->set_option(aio::basic_socket::reuse_address,true); cp->acc->bind(aio::endpoint("127.0.0.1",cp->port)); cp->acc->listen(10); Rearm::arm(cp,wp,sp);
						if(cp->cancel_after >= 0){ cp->canceler.reset(new aio::deadline_timer(*sp)); cp->canceler->expires_from_now(ptime::milliseconds(cp->cancel_after)); cp->canceler->async_wait([cp](booster::system::error_code const &){ if(cp->close_instead){ booster::system::error_code e; cp->acc_closed = true; cp->acc->close(e); } else cp->acc->cancel(); }); } });
				}
				else if(ch->kind == "connect"){
					ch->port = 7400 + (int)i; ch->listen_mode = (int)(((c.geti("listen") % 3) + 3) % 3); ch->hid = w.add("aconnect");
					if(ch->listen_mode){ int lfd = ::socket(AF_INET,SOCK_STREAM,0); struct sockaddr_in sa; memset(&sa,0,sizeof(sa)); sa.sin_family = AF_INET; sa.sin_port = htons((uint16_t)ch->port); sa.sin_addr.s_addr = htonl(0x7f000001); ::bind(lfd,(struct sockaddr*)&sa,sizeof(sa)); ::listen(lfd,5); fcntl(lfd,F_SETFL,O_NONBLOCK); ch->lfd = lfd; }
					aio::io_service *sp = &srv;
					srv.post([sp,cp]{ cp->sock.reset(new aio::stream_socket(*sp)); cp->sock->open(aio::pf_inet); cp->sock->set_non_blocking(true); cp->sock->async_connect(aio::endpoint("127.0.0.1",cp->port),Fn(cp->hid));
						if(cp->cancel_after >= 0){ cp->canceler.reset(new aio::deadline_timer(*sp)); cp->canceler->expires_from_now(ptime::milliseconds(cp->cancel_after)); cp->canceler->async_wait([cp](booster::system::error_code const &){ if(cp->close_instead){ booster::system::error_code e; cp->sock->close(e); cp->closed = true; } else cp->sock->cancel(); }); } });
				}
				else if(ch->kind == "read" || ch->kind == "write"){
					int sv[2]; socketpair(AF_UNIX,SOCK_STREAM,0,sv); fcntl(sv[1],F_SETFL,O_NONBLOCK); ch->peer = sv[1];
					ch->sock.reset(new aio::stream_socket(srv)); ch->sock->assign(sv[0]); ch->sock->set_non_blocking(true);
					if(ch->kind == "read"){ size_t want = (size_t)std::max<int64_t>(1,std::min<int64_t>(c.geti("want",1),100000)); ch->buf.assign(want,'\0'); ch->feed = (size_t)std::max<int64_t>(0,std::min<int64_t>(c.geti("feed"),200000)); ch->chunk = (size_t)std::max<int64_t>(1,c.geti("chunk",1)); ch->close_peer = c.geti("close_peer");
						if(c.geti("eof_first")){ ::close(ch->peer); ch->peer = -1; ch->peer_closed = true; ch->feed = 0; ch->close_peer = false; res.counters["aread_peer_closed_first"] = res.counters.geti("aread_peer_closed_first") + 1; }
						ch->hid = w.add("aread"); w.h[ch->hid].want = want;
						srv.post([cp]{ cp->sock->async_read(aio::buffer(&cp->buf[0],cp->buf.size()),Fn(cp->hid)); }); }
					else { size_t len = (size_t)std::max<int64_t>(1,std::min<int64_t>(c.geti("len",1),400000)); ch->buf.resize(len); for(size_t j=0;j<len;j++) ch->buf[j] = (char)((j*13+i) & 0xff); ch->drain = (size_t)std::max<int64_t>(1,c.geti("drain",1)); ch->close_mid = c.geti("close_mid",-1);
						if(c.geti("gone_first")){ ::close(ch->peer); ch->peer = -1; ch->peer_closed = true; res.counters["awrite_peer_closed_first"] = res.counters.geti("awrite_peer_closed_first") + 1; }
						ch->hid = w.add("awrite"); w.h[ch->hid].want = len;
						srv.post([cp]{ cp->sock->async_write(aio::buffer(cp->buf.data(),cp->buf.size()),Fn(cp->hid)); }); }
					if(ch->cancel_after >= 0){ srv.post([&srv,cp]{ cp->canceler.reset(new aio::deadline_timer(srv)); cp->canceler->expires_from_now(ptime::milliseconds(cp->cancel_after)); cp->canceler->async_wait([cp](booster::system::error_code const &){ if(cp->close_instead){ booster::system::error_code e; cp->sock->close(e); cp->closed = true; } else cp->sock->cancel(); }); }); }   // closing the device while its operation is pending must complete the operation too
				}
				chains.push_back(std::move(ch));
			}
			// the peer side of the chains is an environment thread feeding / draining in pieces
			struct ConnCompleter : simk::Actor { bool enabled() override { return simk::connecting_count() > 0; } void step() override { simk::complete_connect(simk::fault_rng().next()); } const char *name() override { return "connect-completer"; } } completer;
			simk::add_actor(&completer); struct ActorGuard { ~ActorGuard(){ simk::clear_actors(); } } actor_guard;
			std::vector<int> env_conns;
			std::thread env([&]{
				for(int round=0;round<4000;round++){ bool active = false;
					for(auto &ch:chains){
						if(ch->kind == "accept"){   /* peers connect to the acceptor, one every gap rounds */
							if(ch->conns_made < ch->conns && ch->port && round % (ch->conn_gap_ms + 1) == 0 && round < 1500){ int fd = ::socket(AF_INET,SOCK_STREAM,0); struct sockaddr_in sa; memset(&sa,0,sizeof(sa)); sa.sin_family = AF_INET; sa.sin_port = htons((uint16_t)ch->port); sa.sin_addr.s_addr = htonl(0x7f000001);
								if(::connect(fd,(struct sockaddr*)&sa,sizeof(sa)) == 0){ simk::TsanIgnore ign; ch->conns_made++; env_conns.push_back(fd); } else ::close(fd); }
							if(ch->conns_made < ch->conns && round < 1500) active = true;
							{ simk::TsanIgnore ign; if(ch->cancel_after < 0 && ch->got < std::min(ch->times_left + ch->got,ch->conns_made)) active = true; } }
						if(ch->kind == "connect" && ch->listen_mode == 2 && ch->lfd >= 0){ int fd = ::accept(ch->lfd,nullptr,nullptr); if(fd >= 0) env_conns.push_back(fd); if(W->h[ch->hid].count == 0) active = true; } }
					if(round == 3999) env_exhausted = true;
					for(auto &ch:chains){ if(ch->peer < 0 || ch->peer_closed) continue; HRec &hr = w.h[ch->hid];
						if(ch->kind == "read"){ if(ch->fed < ch->feed){ size_t k = std::min(ch->chunk,ch->feed - ch->fed); std::string piece(k,'\0'); for(size_t j=0;j<k;j++) piece[j] = (char)(((ch->fed+j)*7+3) & 0xff); ssize_t n = ::write(ch->peer,piece.data(),k); if(n > 0){ ch->sent.append(piece.data(),n); ch->fed += n; } active = true; }
							else if(ch->close_peer){ ::close(ch->peer); ch->peer_closed = true; } }
						else { char b[4096]; ssize_t n = ::read(ch->peer,b,std::min(sizeof(b),ch->drain)); if(n > 0){ ch->drained.append(b,n); active = true; } else if(hr.count == 0) active = true; if(ch->close_mid >= 0 && (int64_t)ch->drained.size() >= ch->close_mid && hr.count == 0){ ::close(ch->peer); ch->peer_closed = true; res.counters["awrite_peer_closed_mid_drain"] = res.counters.geti("awrite_peer_closed_mid_drain") + 1; active = true; } } }
					if(!active) break; simk::sleep_us(300); } });
			std::vector<std::thread> thr;
			for(size_t t=0;t<nt;t++) thr.emplace_back([&,t]{
				const J &ops = th.a[t]; std::vector<int> tids,thids;
				for(size_t i=0;i<ops.size() && i<40;i++){ const J &o = ops.a[i]; std::string op = o.gets("op"); int p = npairs ? (int)(((o.geti("p") % npairs) + npairs) % npairs) : 0;
					if(op == "post"){ int h = w.add("post"); w.h[h].posted_after_stop = w.stop_called; if(o.geti("throws")) srv.post(ThrowingFn(h)); else srv.post(Fn(h)); }
					else if(op == "timer"){ int h = w.add("timer"); int64_t ms = std::max<int64_t>(-1000,std::min<int64_t>(o.geti("ms"),100000)); w.h[h].posted_after_stop = w.stop_called; w.h[h].deadline_us = simk::now_us() + ms*1000;
						ptime at = ptime(w.h[h].deadline_us/1000000,(int)((w.h[h].deadline_us%1000000)*1000)); int id = srv.set_timer_event(at,Fn(h)); tids.push_back(id); thids.push_back(h); }
					else if(op == "pipe_hup"){ int pp[2]; if(::pipe(pp) == 0){ fcntl(pp[0],F_SETFL,O_NONBLOCK); int h = w.add("pipe_in"); w.h[h].posted_after_stop = w.stop_called; { simk::TsanIgnore ign; auto it = w.stale_fd.find(pp[0]); if(it != w.stale_fd.end()){ w.h[it->second].aba = true; w.h[h].aba = true; } }   /* the pipe got the number of a device another thread has just closed and whose cancel the loop may not have applied yet: known finding descriptor-reused-before-deferred-cancel */ srv.set_io_event(pp[0],aio::io_events::in,Fn(h)); if(o.geti("data")) (void)!::write(pp[1],"x",1); ::close(pp[1]); simk::TsanIgnore ign; w.pipe_fds.push_back(pp[0]); w.pipe_waits++; } }
					else if(op == "io_bad"){ int h = w.add("io_bad"); w.h[h].posted_after_stop = w.stop_called; srv.set_io_event(-1,o.geti("dir") ? aio::io_events::out : aio::io_events::in,Fn(h)); }
					else if(op == "burst"){   /* many timers pending at once: every one gets an id of its own, and cancelling an id completes that wait and no other */
						int n = (int)std::max<int64_t>(1,std::min<int64_t>(o.geti("n"),1600)); std::vector<int> ids,hids; std::set<int> seen; int64_t base = simk::now_us() + 3600LL*1000000;
						{ simk::TsanIgnore ign; if(w.h.size() + (size_t)n + 200 > w.h.capacity()) n = 0; }
						/* victims: a few timers that are due at once; the thread cancels each of them some way into the burst unless it has seen its handler run (the documented
						   contract) - the cancel may land between the expiry of the timer and the run of its handler, when its id must not have gone to one of the burst's timers */
						std::vector<int> vid,vh; int nv = n ? (int)std::max<int64_t>(0,std::min<int64_t>(o.geti("victims"),4)) : 0;
						for(int j=0;j<nv;j++){ int h = w.add("timer"); w.h[h].posted_after_stop = w.stop_called; w.h[h].deadline_us = simk::now_us() + 2000; ptime at = ptime(w.h[h].deadline_us/1000000,(int)((w.h[h].deadline_us%1000000)*1000)); Fn vf(h); vid.push_back(srv.set_timer_event(at,[vf](booster::system::error_code const &e){ if(!e) for(int y=0;y<12;y++) simk::yield();   /* a handler that takes its time: the victims expire together, the later ones wait in the queue behind it */ vf(e); })); vh.push_back(h); }
						auto cancel_victims = [&]{ for(size_t j=0;j<vid.size();j++) if(vid[j] >= 0 && w.h[vh[j]].count == 0){ int id = vid[j]; vid[j] = -1; srv.cancel_timer_event(id); simk::TsanIgnore ign; w.h[vh[j]].t_cancel_us = simk::now_us(); w.victim_cancels++; break; } };
						for(int k=0;k<n;k++){ if(nv && k % 5 == 4) cancel_victims(); int h = w.add("timer"); w.h[h].posted_after_stop = w.stop_called; w.h[h].deadline_us = base + k*1000; ptime at = ptime(w.h[h].deadline_us/1000000,(int)((w.h[h].deadline_us%1000000)*1000)); int id = srv.set_timer_event(at,Fn(h));
							if(!seen.insert(id).second){ simk::TsanIgnore ign; if(w.dup_timer_id.empty()) w.dup_timer_id = "set_timer_event() returned id " + std::to_string(id) + " for timer#" + std::to_string(h) + " while another pending timer of the same burst (" + std::to_string(k) + " armed so far, none due for an hour) holds that id"; }
							ids.push_back(id); hids.push_back(h); }
						{ simk::TsanIgnore ign; w.burst_timers += n; }
						int keep = (int)o.geti("keep");   /* 0: cancel all, in order; 1: cancel all, last first; 2: cancel every other one, the rest is cancelled as well once those were seen to complete */
						auto cancel = [&](int k){ if(w.h[hids[k]].count == 0){ srv.cancel_timer_event(ids[k]); simk::TsanIgnore ign; w.h[hids[k]].t_cancel_us = simk::now_us(); } };
						if(keep == 1) for(int k=n-1;k>=0;k--) cancel(k); else for(int k=0;k<n;k += (keep == 2 ? 2 : 1)) cancel(k);
						if(keep == 2){ simk::block([&]{ for(int k=0;k<n;k+=2) if(!w.h[hids[k]].count) return false; return true; },simk::now_us()+20LL*1000000,"burst-half");
							for(int k=1;k<n;k+=2) if(w.h[hids[k]].count && w.h[hids[k]].code != 0){ simk::TsanIgnore ign; if(w.dup_timer_id.empty()) w.dup_timer_id = "timer#" + std::to_string(hids[k]) + " was completed with an error although only other timers had been cancelled"; }
							for(int k=1;k<n;k+=2) cancel(k); } }
					else if(op == "cancel_timer"){
						// documented contract: an id is cancelled at most once, and not after its handler was seen to run
						if(!tids.empty()){ size_t k = (size_t)(o.geti("i") % (int64_t)tids.size()); if(tids[k] >= 0 && w.h[thids[k]].count == 0){ int id = tids[k]; tids[k] = -1; srv.cancel_timer_event(id); { simk::TsanIgnore ign; w.h[thids[k]].t_cancel_us = simk::now_us(); } } } }
					else if(op == "io" && npairs){ int dir = o.geti("dir") ? aio::io_events::out : aio::io_events::in; int fd = pairs[p].first;
						if(!w.armed[{fd,dir}]){ w.armed[{fd,dir}] = true; int h = w.add(dir == aio::io_events::in ? "io_in" : "io_out"); w.h[h].fd = fd; w.h[h].dir = dir; w.h[h].posted_after_stop = w.stop_called; srv.set_io_event(fd,dir,Fn(h)); w.h[h].armed_seq = ++w.evseq; } }
					else if(op == "cancel_io" && npairs){ int fd = pairs[p].first; aio::io_service *sp = &srv; srv.post([sp,fd]{ sp->cancel_io_events(fd); }); }   // executed on the loop thread, like basic_io_device::cancel
					else if(op == "xcancel_io" && npairs){ w.xcancelled_fds.insert(pairs[p].first); w.xcancels.push_back({pairs[p].first,++w.evseq}); srv.cancel_io_events(pairs[p].first); }             // directly from this foreign thread
					else if(op == "ready" && npairs){ std::string d((size_t)std::max<int64_t>(1,std::min<int64_t>(o.geti("n",1),4000)),'r'); (void)!::write(pairs[p].second,d.data(),d.size()); }
					else if(op == "sleep"){ simk::sleep_us(std::max<int64_t>(0,std::min<int64_t>(o.geti("ms"),100000))*1000); }
					else if(op == "dev" && !stop_race){
						// A device is not thread safe but may be used by one thread at a time, also by a thread that is not the loop thread (cppcms's worker threads close
						// connections that have a disconnect-detection wait armed). close() = cancel_io_events() + ::close(): when the loop is polling the cancel is deferred
						// and reaches the reactor after the descriptor is gone; the next socket gets the same number. Its waits must work like any other's.
						auto sentinel = [&]{ int sn = w.add("post"); srv.post(Fn(sn)); return simk::block([&w,sn]{ return w.h[sn].count > 0; },simk::now_us()+3600LL*1000000,"dev-sentinel"); };
						// descriptor numbers are process wide: a number is "stale" from the close() of a device with an armed wait until the closing thread has seen the loop drain its queue
						auto tfail = [&](const std::string &c,const std::string &m,const std::string &f = std::string()){ simk::TsanIgnore ign; res.fail(c,m,f); };
						auto hwrite = [](int fd,const char *c){ for(int k=0;k<1000;k++){ if(::write(fd,c,1) == 1) return; if(errno != EINTR && errno != EAGAIN) return; } };   // the harness's own writes retry injected EINTR / EAGAIN
						auto stale_hit = [&](int a,int b){ bool hit = false; for(int fd:{a,b}){ auto it = w.stale_fd.find(fd); if(it != w.stale_fd.end()){ w.h[it->second].aba = true; hit = true; } } return hit; };
						int sv[2]; if(socketpair(AF_UNIX,SOCK_STREAM,0,sv) != 0) continue; fcntl(sv[1],F_SETFL,O_NONBLOCK); int dev_h1 = -1, dev_h2 = -1; bool stale1 = stale_hit(sv[0],sv[1]);
						bool attach = o.geti("attach") != 0;
						{ aio::stream_socket s1(srv); if(attach) s1.attach(sv[0]); else s1.assign(sv[0]); s1.set_non_blocking(true);
						  int h1 = w.add("dev_in"); w.h[h1].aba = stale1; s1.on_readable(Fn(h1));
						  if(!sentinel()){ tfail("handler-never-invoked","a posted handler was never invoked by a running loop"); booster::system::error_code e; s1.close(e); ::close(sv[1]); break; }   // the wait is registered now (the queue is first-in first-out)
						  int early = (int)o.geti("early"); if(early == 1) hwrite(sv[1],"x");   // the event may happen right before the close: success or cancellation, once
						  if(early == 2) simk::sleep_us(2000);   // let the loop go back to polling
						  w.stale_fd[sv[0]] = h1; booster::system::error_code e; s1.close(e); if(attach){ ::close(sv[0]); simk::TsanIgnore ign; w.dev_attached++; } ::close(sv[1]); w.h[h1].want = early == 1 ? 1 : 0; dev_h1 = h1; }
						// settle: the thread waits until the loop has applied the (possibly deferred) cancel before it opens the next descriptor. Without that the number is
						// re-used while the loop still holds the old registration - an ABA problem of io_service's deferred cancel, recorded as a known finding.
						bool settle = o.geti("settle",1) != 0; auto unstale = [&]{ auto it = w.stale_fd.find(sv[0]); if(it != w.stale_fd.end() && it->second == dev_h1) w.stale_fd.erase(it); };
						if(settle){ if(!sentinel()){ tfail("handler-never-invoked","a posted handler was never invoked by a running loop"); break; } unstale(); }
						for(int g=0;g<(int)o.geti("gap");g++) simk::yield();
						int sw[2]; if(socketpair(AF_UNIX,SOCK_STREAM,0,sw) != 0) continue; fcntl(sw[1],F_SETFL,O_NONBLOCK); bool stale2 = stale_hit(sw[0],sw[1]);
						{ aio::stream_socket s2(srv); s2.assign(sw[0]); s2.set_non_blocking(true); bool out = o.geti("dir2") != 0;
						  int h2 = w.add(out ? "dev_out2" : "dev_in2"); w.h[h2].aba = stale2; if(out) s2.on_writeable(Fn(h2)); else { s2.on_readable(Fn(h2)); hwrite(sw[1],"y"); }
						  bool got = simk::block([&w,h2]{ return w.h[h2].count > 0; },simk::now_us()+60LL*1000000,"dev-wait"); if(got) simk::hb_acquire(&w.h[h2]);
						  // operations with a continuation, issued by this (non-loop) thread: their completion handlers run on the loop thread too, never inside the call
						  int h3 = -1; std::string wb; if(got && o.geti("xfer") && !stale2){ wb.assign(600 + (size_t)(o.geti("xfer") * 37 % 900),'w'); aio::const_buffer cb; size_t pieces = 18 + (size_t)(o.geti("xfer") % 5), per = wb.size() / pieces;   // more chunks than one writev takes
							for(size_t k=0;k<pieces;k++) cb = cb + aio::buffer(wb.data() + k*per,k + 1 == pieces ? wb.size() - k*per : per);
							h3 = w.add("dev_awrite"); w.h[h3].want = wb.size(); { simk::TsanIgnore ign; w.h[h3].in_call = true; } s2.async_write(cb,Fn(h3)); { simk::TsanIgnore ign; w.h[h3].in_call = false; }
							bool g3 = simk::block([&w,h3]{ return w.h[h3].count > 0; },simk::now_us()+60LL*1000000,"dev-awrite"); if(g3) simk::hb_acquire(&w.h[h3]); if(!g3 && res.ok) tfail("handler-never-invoked","async_write of " + std::to_string(wb.size()) + " bytes in " + std::to_string(pieces) + " chunks issued by the thread that owns the device: no completion within 60 simulated seconds"); }
						  if(!got && res.ok) tfail(!stale2 ? "io-wait-lost-after-device-close" : "reused-descriptor:io-wait-lost",std::string(out ? "writable" : "readable") + " wait on descriptor " + std::to_string(sw[0]) + " (number re-used after a device was closed by a non-loop thread" + (!stale2 ? " and the loop had processed everything queued before" : " while its cancel was still deferred") + "; first device had " + std::to_string(sv[0]) + ") was not completed within 60 simulated seconds although the event had happened",!stale2 ? "" : "descriptor-reused-before-deferred-cancel");
						  if(stale2 || stale1){ simk::TsanIgnore ign; w.dev_stale++; }

						  // closing a device that has no wait armed can still leave a deferred canceler behind (cancel_io_events() queues one whenever the dispatch queue is not empty)
						  w.stale_fd[sw[0]] = h2; booster::system::error_code e; s2.close(e); ::close(sw[1]); dev_h2 = h2; { simk::TsanIgnore ign; w.dev_cycles++; if(sw[0] == sv[0]) w.dev_reused++; } }
						// the numbers stop being stale once this thread has seen the loop drain its queue
						if(sentinel()){ unstale(); auto it = w.stale_fd.find(sw[0]); if(it != w.stale_fd.end() && it->second == dev_h2) w.stale_fd.erase(it); }
					}
					else simk::yield();
				} });
			if(stop_race){ w.stop_called = true; srv.stop(); }
			for(auto &t:thr) t.join();
			if(!stop_race){
				auto outstanding = [&](bool io_too){ std::string m; for(size_t i=0;i<w.h.size();i++){ HRec &r = w.h[i]; if(r.count) continue; if(!io_too && (r.kind == "io_in" || r.kind == "io_out" || r.kind == "aread" || r.kind == "awrite" || r.kind == "aaccept")) continue; m += " " + r.kind + "#" + std::to_string(i); } return m; };
				auto roundtrip = [&]{ int s = w.add("post"); srv.post(Fn(s)); return simk::block([&w,s]{ return w.h[s].count > 0; },simk::now_us()+2*3600LL*1000000,"wait-sentinel"); };
				// posts and timers complete by themselves; descriptor waits and socket operations may need a cancel to end
				{ bool aba_done = simk::block([&]{ for(auto &r:w.h) if(r.aba && !r.count) return false; return true; },simk::now_us()+120LL*1000000,"wait-aba-handlers");
				  if(!aba_done){ std::string m; for(size_t i=0;i<w.h.size();i++) if(w.h[i].aba && !w.h[i].count) m += " " + w.h[i].kind + "#" + std::to_string(i); res.fail("reused-descriptor:handler-never-invoked","never invoked:" + m + " (descriptor number re-used while the cancel of the closed device was still deferred)","descriptor-reused-before-deferred-cancel"); } }
				bool done = simk::block([&]{ for(auto &r:w.h){ if(r.count || r.aba) continue; if(r.kind == "io_in" || r.kind == "io_out" || r.kind == "aread" || r.kind == "awrite" || r.kind == "aaccept") continue; return false; } return true; },simk::now_us()+2*3600LL*1000000,"wait-handlers");   /* a connect in progress completes by itself - established or refused */
				if(!done) res.fail("handler-never-invoked","loop kept running but these handlers were never invoked:" + outstanding(false));
				env.join();
				if(res.ok && !roundtrip()) res.fail("handler-never-invoked","a posted handler was never invoked by a running loop");
				// a wait armed by a set_io_event() call that had RETURNED before a later cancel_io_events() was issued must have been cancelled by now
				if(res.ok) for(size_t i=0;i<w.h.size();i++){ HRec &r = w.h[i]; if(r.count || r.fd < 0) continue;
					for(auto &xc:w.xcancels) if(xc.first == r.fd && xc.second > r.armed_seq){ res.fail("io-wait-lost-after-cross-thread-cancel",r.kind + "#" + std::to_string(i) + ": set_io_event() had returned (event " + std::to_string(r.armed_seq) + ") before cancel_io_events() was called from another thread (event " + std::to_string(xc.second) + "), yet the handler was neither invoked with a cancellation code nor is it still cancellable by that call","xthread-cancel-io-lost"); break; } }
				// final clean-up on the loop thread; an operation whose continuation is in flight is not affected by a cancel, so repeat
				for(int round=0;round<4000 && res.ok;round++){   // each round lets an in-flight operation consume at least one more byte: terminates
					bool all = true; for(auto &r:w.h) if(!r.count) all = false; if(all) break;
					for(auto &pr:pairs){ int fd = pr.first; aio::io_service *sp = &srv; srv.post([sp,fd]{ sp->cancel_io_events(fd); }); }
					for(auto &ch:chains) if(ch->sock){ Chain *cp = ch.get(); srv.post([cp]{ if(W->h[cp->hid].count == 0 && !cp->closed) cp->sock->cancel(); }); }
					for(auto &ch:chains) if(ch->kind == "accept"){ Chain *cp = ch.get(); srv.post([cp]{ if(cp->acc && !cp->acc_closed) cp->acc->cancel(); }); }
					if(!roundtrip()) res.fail("handler-never-invoked","a posted handler was never invoked by a running loop");
					if(round == 1) res.counters["extra_cancel_rounds"] = res.counters.geti("extra_cancel_rounds") + 1;
				}
				bool all = true; for(auto &r:w.h) if(!r.count) all = false;
				if(!all && res.ok) res.fail("handler-never-invoked","after cancelling all descriptor waits (repeated until nothing was left in flight) these handlers were never invoked:" + outstanding(true));
			} else env.join();
			w.stop_called = true; srv.stop();
			loop.join();
			// ---- second life
			{ const J &l2 = plan.get("life2");
			  if(res.ok && !stop_race && l2.is_arr() && l2.size()){
				srv.reset(); w.stop_called = false; size_t first2 = w.h.size(); res.counters["second_lives"] = 1;
				std::thread loop2([&]{ w.loop_thread2 = simk::self_id(); try { srv.run(); } catch(LoopThrow const &){} });
				simk::sleep_us(1000 * std::max<int64_t>(0,std::min<int64_t>(plan.geti("life2_idle_ms"),1000)));   // the loop may already be idle in its reactor when the first request arrives
				auto served = [&](int h,const char *what){ bool ok = simk::block([&w,h]{ return w.h[h].count > 0; },simk::now_us()+30LL*1000000,"life2-wait"); if(!ok) res.fail("handler-never-invoked",std::string("second life (after stop(), reset(), run()): ") + what + " issued by another thread while the loop was idle was not served within 30 simulated seconds"); return ok; };
				for(size_t i=0;i<l2.size() && i<8 && res.ok;i++){ const J &o = l2.a[i]; std::string op = o.gets("op");
					if(op == "post"){ int h = w.add("post"); w.h[h].life = 2; srv.post(Fn(h)); served(h,"a posted handler"); }
					else if(op == "timer"){ int h = w.add("timer"); w.h[h].life = 2; int64_t ms = std::max<int64_t>(0,std::min<int64_t>(o.geti("ms"),1000)); w.h[h].deadline_us = simk::now_us() + ms*1000; ptime at = ptime(w.h[h].deadline_us/1000000,(int)((w.h[h].deadline_us%1000000)*1000)); srv.set_timer_event(at,Fn(h)); served(h,"a timer"); }
					else if(op == "io" && npairs){ int p = (int)(((o.geti("p") % npairs) + npairs) % npairs); int fd = pairs[p].first; { char b[4096]; while(::read(fd,b,sizeof(b)) > 0){} }
						int h = w.add("io_in"); w.h[h].life = 2; w.h[h].fd = fd; w.h[h].dir = aio::io_events::in; srv.set_io_event(fd,aio::io_events::in,Fn(h)); for(int k=0;k<1000;k++){ if(::write(pairs[p].second,"z",1) == 1 || (errno != EINTR && errno != EAGAIN)) break; } served(h,"a descriptor wait whose event happened"); }
					else simk::sleep_us(1000 * std::max<int64_t>(0,std::min<int64_t>(o.geti("ms"),100))); }
				int64_t t_stop = simk::now_us(); w.stop_called = true; srv.stop(); loop2.join();
				if(res.ok && simk::now_us() - t_stop > 30LL*1000000) res.fail("stop-not-noticed","second life: run() returned " + std::to_string((long)((simk::now_us() - t_stop)/1000000)) + " simulated seconds after stop() was called by another thread");
				(void)first2; } }
			for(auto &ch:chains){ ch->timer.reset(); ch->canceler.reset(); if(ch->sock){ booster::system::error_code e; ch->sock->close(e); } if(ch->peer >= 0 && !ch->peer_closed) ::close(ch->peer);
				if(ch->acc){ booster::system::error_code e; ch->acc->close(e); } for(auto &a:ch->accepted){ booster::system::error_code e; a->close(e); } if(ch->lfd >= 0) ::close(ch->lfd); }
			for(int fd:env_conns) ::close(fd); for(int fd:w.pipe_fds) ::close(fd);
			for(auto &pr:pairs){ ::close(pr.first); ::close(pr.second); }
		}
		if(res.ok && !w.dup_timer_id.empty()) res.fail("timer-id-not-unique",w.dup_timer_id);
		res.counters["burst_timers"] = w.burst_timers; res.counters["victim_timer_cancels_inside_a_burst"] = w.victim_cancels; res.counters["pipe_hangup_waits"] = w.pipe_waits;
		res.counters["run_restarted_after_handler_exception"] = w.loop_restarts; res.counters["dev_cycles"] = w.dev_cycles; res.counters["dev_descriptor_reused"] = w.dev_reused; res.counters["dev_cycles_on_stale_number"] = w.dev_stale; res.counters["dev_attached_devices"] = w.dev_attached;
		int n_ok = 0, n_cancel = 0;
		if(!stop_race) for(size_t i=0;i<w.h.size();i++){ HRec &r = w.h[i]; if(!r.aba) continue; std::string nm = r.kind + "#" + std::to_string(i); std::string bad;
			if(r.count != 1) bad = "was invoked " + std::to_string(r.count) + " times"; else if(r.kind == "dev_in" ? (r.code == 0 && r.want == 0) : r.code != 0) bad = r.kind == "dev_in" ? "reported readable although its device was closed and its peer never wrote" : "got error " + std::to_string(r.code) + "/" + r.cat + " although its device was never cancelled and the event had happened";
			if(!bad.empty()) res.fail("reused-descriptor:" + std::string(r.count == 0 ? "handler-never-invoked" : r.count > 1 ? "handler-ran-twice" : r.kind == "dev_in" ? "success-without-event" : "spurious-error"),nm + " " + bad + " (descriptor number re-used while the cancel of the closed device was still deferred)","descriptor-reused-before-deferred-cancel"); }
		for(size_t i=0;i<w.h.size();i++){ HRec &r = w.h[i]; std::string nm = r.kind + "#" + std::to_string(i);
			if(r.count > 1){ res.fail("handler-ran-twice",nm + " was invoked " + std::to_string(r.count) + " times"); continue; }
			if(r.count == 0){ if(!stop_race && res.ok) res.fail("handler-never-invoked",nm + " was never invoked"); continue; }
			if(w.xcancelled_fds.count(r.fd)) res.counters["xthread_cancelled_waits"] = res.counters.geti("xthread_cancelled_waits") + 1;
			if(r.thread != (r.life == 2 ? w.loop_thread2 : w.loop_thread)) res.fail("wrong-thread",nm + " ran on thread " + std::to_string(r.thread) + ", the loop runs on " + std::to_string(r.life == 2 ? w.loop_thread2 : w.loop_thread));
			bool canceled = r.code == aio::aio_error::canceled && r.cat == aio::aio_error_cat.name();
			if(r.code == 0) n_ok++; else n_cancel++;
			if(r.kind == "ptimer" && r.must_cancel && r.code == 0) res.fail("cancelled-timer-fired",nm + ": cancel() was called on the deadline_timer while this wait (armed from inside the previous handler) was pending and not yet due, yet the handler was invoked with success " + std::to_string((long)((r.t_us - r.deadline_us)/1000)) + " ms after its deadline");
			// a cancel completes the wait: the loop is woken for it, the cancellation does not have to wait for whatever wakes the loop next
			if(r.kind == "timer" && canceled && r.t_cancel_us >= 0 && r.t_us - r.t_cancel_us > 5000000 && !stop_race) res.fail("cancelled-timer-delivered-late",nm + ": cancel_timer_event() returned at " + std::to_string((long)(r.t_cancel_us/1000)) + " ms (simulated) but the handler got its cancellation " + std::to_string((long)((r.t_us - r.t_cancel_us)/1000)) + " ms later - only when something else woke the loop");
			if(r.kind == "timer" && canceled && r.t_cancel_us < 0 && !stop_race) res.fail("timer-cancelled-by-nobody",nm + " was completed with a cancellation although cancel_timer_event() was never called with its id");
			if(r.kind == "timer" || r.kind == "dtimer" || r.kind == "ptimer"){
				if(r.code == 0 && r.t_us < r.deadline_us) res.fail("timer-fired-early",nm + " fired " + std::to_string((long)(r.deadline_us - r.t_us)) + " us before its deadline");
				if(r.code != 0 && !canceled) res.fail("unexpected-error-code",nm + " got error " + std::to_string(r.code) + "/" + r.cat); }
			if(r.kind == "io_in" && r.code == 0 && r.readable_at_call == 0) res.fail("io-success-without-event",nm + " reported readable but nothing was there");
			if((r.kind == "io_in" || r.kind == "io_out") && r.code != 0 && !canceled && !(r.cat == aio::aio_error_cat.name() && r.code == aio::aio_error::select_failed)) res.fail("unexpected-error-code",nm + " got error " + std::to_string(r.code) + "/" + r.cat);
			if(r.kind == "post" && r.code != 0) res.fail("unexpected-error-code",nm + " got an error code");
			if(r.kind == "io_bad" && r.code == 0) res.fail("io-success-without-event",nm + ": a wait armed on descriptor -1 completed with success");
			if(r.kind == "aaccept"){ if(r.code == 0 && r.want == 0) res.fail("accept-success-without-connection",nm + ": async_accept completed successfully but the target socket holds no connection");
				if(r.code != 0 && !canceled && !r.closed_dev /* the acceptor was closed while this wait was pending: any error code is a legal completion then */) res.fail("unexpected-error-code",nm + ": async_accept handler got error " + std::to_string(r.code) + "/" + r.cat + " - the listening socket was never in error; a connection that is gone by the time accept() is called (would-block) is not an event"); }
			if(r.kind == "dev_awrite"){ if(r.code != 0 || r.n != r.want) res.fail("short-async-write",nm + ": async_write on a fresh device completed with code " + std::to_string(r.code) + " after " + std::to_string(r.n) + " of " + std::to_string(r.want) + " bytes"); }
			if((r.kind == "dev_in2" || r.kind == "dev_out2") && r.code != 0) res.fail("unexpected-error-code",nm + " (wait on a fresh device whose event had happened) got error " + std::to_string(r.code) + "/" + r.cat);
			if(r.kind == "dev_in" && r.code == 0 && r.want == 0) res.fail("io-success-without-event",nm + " reported readable but the peer never wrote");
		}
		for(auto &ch:chains){
			if(ch->kind == "accept"){ res.counters["accept_chains"] = res.counters.geti("accept_chains") + 1; res.counters["connections_accepted"] = res.counters.geti("connections_accepted") + ch->got;
				if(ch->got > ch->conns_made) res.fail("accepted-more-than-connected","the acceptor reported " + std::to_string(ch->got) + " accepted connections, " + std::to_string(ch->conns_made) + " peers connected");
				int expect = std::min(ch->times_left + ch->got,ch->conns_made);
				if(res.ok && !stop_race && !env_exhausted && ch->cancel_after < 0 && ch->got < expect) res.fail("pending-connection-never-accepted","an acceptor that was never cancelled accepted " + std::to_string(ch->got) + " of the " + std::to_string(ch->conns_made) + " connections made to it (it was willing to take " + std::to_string(ch->times_left + ch->got) + ")"); }
			if(ch->kind == "connect" && ch->hid >= 0 && w.h[ch->hid].count){ HRec &r = w.h[ch->hid]; bool canceled = r.code == aio::aio_error::canceled && r.cat == aio::aio_error_cat.name(); res.counters["connect_chains"] = res.counters.geti("connect_chains") + 1; if(r.code == 0) res.counters["connects_ok"] = res.counters.geti("connects_ok") + 1;
				if(r.code == 0 && ch->listen_mode == 0) res.fail("connect-success-without-listener","async_connect to an address nobody listens at completed successfully");
				if(r.code != 0 && !canceled && !ch->closed && !(ch->listen_mode == 0 && r.code == ECONNREFUSED)) res.fail("unexpected-error-code","async_connect to " + std::string(ch->listen_mode ? "a listening" : "a dead") + " address got error " + std::to_string(r.code) + "/" + r.cat); }
		}
		for(auto &ch:chains){ if(ch->hid < 0) continue; HRec &r = w.h[ch->hid]; if(!r.count) continue;
			if(ch->kind == "read"){
				if(r.code == 0 && r.n != r.want) res.fail("short-async-read","async_read completed successfully with " + std::to_string(r.n) + " of " + std::to_string(r.want) + " bytes");
				if(r.n > ch->sent.size() || ch->buf.compare(0,r.n,ch->sent,0,r.n) != 0) res.fail("async-read-data-mismatch","async_read delivered bytes that differ from what the peer sent");
				if(r.code == 0) res.counters["aread_ok"] = res.counters.geti("aread_ok") + 1; else res.counters["aread_err"] = res.counters.geti("aread_err") + 1; }
			if(ch->kind == "write"){
				if(r.code == 0 && r.n != r.want) res.fail("short-async-write","async_write completed successfully with " + std::to_string(r.n) + " of " + std::to_string(r.want) + " bytes");
				if(ch->drained.size() > ch->buf.size() || ch->buf.compare(0,ch->drained.size(),ch->drained) != 0) res.fail("async-write-data-mismatch","bytes received by the peer are not a prefix of the written buffer");
				if(ch->peer < 0 && ch->peer_closed && ch->drained.empty()){ if(r.code == 0) res.fail("async-write-to-closed-peer-succeeded","async_write to a peer that had closed before the operation was started completed with success"); else res.counters["awrite_peer_closed_first_failed"] = res.counters.geti("awrite_peer_closed_first_failed") + 1; }
				if(r.code == 0) res.counters["awrite_ok"] = res.counters.geti("awrite_ok") + 1; else res.counters["awrite_err"] = res.counters.geti("awrite_err") + 1; }
		}
		res.counters["handlers"] = (long long)w.h.size(); res.counters["handlers_ok"] = n_ok; res.counters["handlers_cancelled_or_error"] = n_cancel; res.counters["loop_stop_race"] = stop_race;
		res.counters[rt == 0 ? "reactor_epoll" : rt == 1 ? "reactor_poll" : "reactor_select"] = 1;
	}

	RunResult run(const J &plan) override {
		RunResult res; World w; W = &w; w.h.reserve(8192); w.xcancels.reserve(4096);
		simk::Params sp; sp.sched_seed = (uint64_t)plan.geti("sched_seed",1); sp.fault_seed = (uint64_t)plan.geti("fault_seed",1); sp.strategy = (int)(((plan.geti("strategy") % 3) + 3) % 3);
		sp.pct_depth = (int)std::max<int64_t>(1,std::min<int64_t>(plan.geti("pct_depth",2),8)); sp.pct_len = (int)std::max<int64_t>(1,plan.geti("pct_len",500)); sp.tick_us = (int)std::max<int64_t>(1,std::min<int64_t>(plan.geti("tick_us",1),100000));
		sp.p_eintr = (unsigned)std::max<int64_t>(0,std::min<int64_t>(plan.geti("p_eintr"),300)); sp.p_short_read = (unsigned)std::max<int64_t>(0,std::min<int64_t>(plan.geti("p_short_read"),1000)); sp.p_short_write = (unsigned)std::max<int64_t>(0,std::min<int64_t>(plan.geti("p_short_write"),1000)); sp.p_spurious = (unsigned)std::max<int64_t>(0,std::min<int64_t>(plan.geti("p_spurious"),300));
		sp.p_connect_inprogress = (unsigned)std::max<int64_t>(0,std::min<int64_t>(plan.geti("p_inprogress"),1024));
		sp.default_chan_cap = 3000; sp.max_steps = 3000000; sp.text_trace = plan.geti("text_trace");
		const J &ta = plan.get("tape"); for(size_t i=0;i<ta.size();i++) sp.tape.push_back((uint32_t)ta.a[i].as_int());
		simk::begin(sp);
		try {
			if(plan.gets("mode") == "pool") run_pool(plan,res,w); else run_loop(plan,res,w);
		} catch(std::exception const &e){ res.fail("exception-escaped",std::string("exception left the event loop / pool: ") + e.what()); }
		if(res.ok && w.live_functors != 0) res.fail("handler-leak-or-double-free","after the loop/pool was destroyed " + std::to_string(w.live_functors) + " handler objects are still alive");
		res.hash = simk::trace_hash();
		simk::Stats &s = simk::stats();
		res.counters["steps"] = (long long)s.steps; res.counters["switches"] = (long long)s.switches; res.counters["eintr"] = (long long)s.eintr; res.counters["short_reads"] = (long long)s.short_reads; res.counters["short_writes"] = (long long)s.short_writes;
		res.counters["accept_would_block_after_readable"] = (long long)s.accept_spurious; res.counters["connects_in_progress"] = (long long)s.connect_inprogress;
		res.counters["spurious_wakeups"] = (long long)s.spurious; res.counters["eagain"] = (long long)(s.eagain_r + s.eagain_w); res.counters["mutex_contended"] = (long long)s.mutex_contended; res.counters["cv_waits"] = (long long)s.cv_waits;
		res.counters["sim_seconds"] = (long long)((simk::now_us() - sp.start_time_s*1000000LL)/1000000);
		res.counters[std::string("strategy_") + (sp.strategy == 0 ? "random" : sp.strategy == 1 ? "pct" : "run_to_block")] = 1;
		simk::end();
		W = nullptr;
		if(s.switches > 4 && w.h.size() >= 2) res.nt = res.hash ? res.hash : 1;
		return res;
	}
};
}
int main(int argc,char **argv){ E6 e; return runner::main_impl(argc,argv,e,"E6"); }
