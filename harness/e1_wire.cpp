// E1 "wire": a real cppcms::service with its real HTTP / SCGI / FastCGI front-ends, event loop, worker pool and
// applications, served over simulated sockets to simulated peers (C01, C02, C03, C12).
#include <cppcms/service.h>
#include <booster/aio/io_service.h>
#include <cppcms/application.h>
#include <cppcms/applications_pool.h>
#include <cppcms/mount_point.h>
#include <cppcms/http_context.h>
#include <cppcms/http_request.h>
#include <cppcms/http_response.h>
#include <cppcms/http_file.h>
#include <cppcms/http_cookie.h>
#include <cppcms/http_content_filter.h>
#include <cppcms/cache_interface.h>
#include <cppcms/json.h>
#include <thread>
#include <sstream>
#include <zlib.h>
#include <dirent.h>
#include <sys/stat.h>
#include "../sim/runner.h"
#include "wire_proto.h"

namespace {
using namespace wire;

// ---------------------------------------------------------------- application side bookkeeping
struct AppWorld {
	std::map<std::string,int> entered;       // request tag -> main() entries
	std::map<std::string,int> on_error;      // request tag -> content-filter on_error calls
	std::map<std::string,int> completed;     // request tag -> handler ran to its end
	int untagged_entries = 0; int filters_installed = 0; std::string save_dir; int saved = 0;   // save_dir: where the echo application keeps odd-sized uploads with file::save_to()
	std::string exception;                   // an exception that left a handler (must be handled by cppcms)
	std::map<std::string,int> flush_issued,flush_done,flush_aborted; int async_flushes = 0, deferred_continuations = 0, uploads_aborted = 0, full_disk_saves = 0; std::string full_disk_lie;   // completion handlers of context::async_flush_output per request tag
};
AppWorld *AW = nullptr;

inline unsigned char pat(uint64_t salt,uint64_t i){ uint64_t x = (i + 1) * 0x9E3779B97F4A7C15ULL ^ salt * 0xD6E8FEB86659FD93ULL; return (unsigned char)(x >> 29); }
// the body bytes a write script produces (client side model)
std::string script_body(const std::string &script,uint64_t salt){
	std::string body; size_t p = 0;
	while(p < script.size()){ size_t e = script.find('.',p); if(e == std::string::npos) e = script.size(); std::string t = script.substr(p,e-p); p = e + 1;
		if(t.size() >= 2 && t[0] == 'w'){ size_t n = strtoul(t.c_str()+1,nullptr,10); if(n > 400000) n = 400000; size_t o = body.size(); body.resize(o+n); for(size_t i=0;i<n;i++) body[o+i] = (char)pat(salt,o+i); } }
	return body;
}

class TestApp : public cppcms::application {
public:
	TestApp(cppcms::service &s) : cppcms::application(s) {}
	virtual const char *banner(){ return ""; }
	void echo(){
		cppcms::http::request &rq = request();
		Pairs g,p,c; for(auto &kv:rq.get()) g.push_back(kv); for(auto &kv:rq.post()) p.push_back(kv);
		for(auto &kv:rq.cookies()) c.push_back({kv.first,kv.second.value()});
		sort_pairs(g); sort_pairs(p); sort_pairs(c);
		std::pair<void*,size_t> b = rq.raw_post_data(); std::string body((char*)b.first,b.second);
		std::vector<std::string> files;
		for(auto &f:rq.files()){ std::ostringstream ss; std::string d;
			if((f->size() % 2 == 0 && f->size() != 0) || AW->save_dir.empty()){ ss << f->data().rdbuf(); d = ss.str(); }   /* empty files (a file input left empty) are kept with save_to() as well */
			else {   // odd sizes: the application reads the upload with ordinary istream calls until they fail at its end, then keeps it with save_to(); what was saved is what gets reported
				std::istream &in = f->data(); char b[333]; std::string seen; for(;;){ in.read(b,sizeof(b)); std::streamsize n = in.gcount(); if(n > 0) seen.append(b,(size_t)n); if(!in) break; }
				std::string path; { simk::TsanIgnore ign; path = AW->save_dir + "/s" + std::to_string(AW->saved++); }
				/* a target that cannot take a single byte (the disk is full): save_to() has to say so - an application that is told "saved" deletes its copy */
				if(f->size() % 5 == 3){ bool refused = false; try { f->save_to("/dev/full"); } catch(std::exception const &){ refused = true; } simk::TsanIgnore ign; AW->full_disk_saves++; if(!refused && AW->full_disk_lie.empty()) AW->full_disk_lie = "file::save_to(\"/dev/full\") of an upload of " + std::to_string(f->size()) + " bytes returned normally although not one byte could be written"; }
				bool threw = false; try { f->save_to(path); } catch(std::exception const &){ threw = true; }
				std::string back; { std::ifstream sf(path.c_str(),std::ios::binary); std::ostringstream o2; o2 << sf.rdbuf(); back = o2.str(); } ::unlink(path.c_str());
				d = threw ? std::string("save_to threw") : back; if(!threw && seen != back) d = "saved file differs from what the application had read: " + std::to_string(back.size()) + " bytes saved, " + std::to_string(seen.size()) + " read"; }
			files.push_back(esc(f->name()) + "|" + (f->has_mime() ? esc(f->mime()) : std::string("-")) + "|" + esc(f->filename()) + "|" + blob(d)); }
		std::string t = echo_text(rq.getenv(),g,p,c,body,files);
		response().set_plain_text_header();
		response().out() << banner() << t;
	}
	// the writer script is resumable: an asynchronous application may hand a part of the page to the peer with context::async_flush_output() and go on writing from the completion handler (token F)
	struct WState { std::string script,key,tag; size_t p = 0; uint64_t pos = 0,salt = 0; bool raw_hdr = false,async = false; };
	/* returns true when the script has run to its end, false when it suspended itself behind an asynchronous flush (it then owns the context and finishes the response itself) */
	static bool writer_steps(booster::shared_ptr<WState> st,cppcms::http::context &ctx,cppcms::application *app){
		cppcms::http::response &r = ctx.response(); const std::string &script = st->script; const std::string &key = st->key; uint64_t salt = st->salt; size_t &p = st->p; uint64_t &pos = st->pos; bool &raw_hdr = st->raw_hdr; bool is_async = st->async;
		while(p < script.size()){ size_t e = script.find('.',p); if(e == std::string::npos) e = script.size(); std::string t = script.substr(p,e-p); p = e + 1; if(t.empty()) continue;
			long n = t.size() > 1 ? strtol(t.c_str()+1,nullptr,10) : 0;
			switch(t[0]){
			case 'w': { if(n > 400000) n = 400000; std::string d((size_t)n,'\0'); for(long i=0;i<n;i++) d[i] = (char)pat(salt,pos+i); pos += n; r.out().write(d.data(),d.size()); } break;
			case 'p': { if(n > 4000) n = 4000; for(long i=0;i<n;i++){ r.out().put((char)pat(salt,pos)); pos++; } } break;   // byte-at-a-time writes (counted as w<n> by the model)
			case 'f': r.out() << std::flush; break;
			case 'F': if(is_async && (r.io_mode() == cppcms::http::response::asynchronous || r.io_mode() == cppcms::http::response::asynchronous_raw)){
					booster::shared_ptr<cppcms::http::context> c = app ? app->release_context() : ctx.shared_from_this(); r.out();
					{ simk::TsanIgnore ign; AW->async_flushes++; AW->flush_issued[st->tag]++; }
					c->async_flush_output([c,st](cppcms::http::context::completion_type ct){
						if(ct != cppcms::http::context::operation_completed){ simk::TsanIgnore ign; AW->flush_aborted[st->tag]++; return; }
						{ simk::TsanIgnore ign; AW->flush_done[st->tag]++; }
						if(writer_steps(st,*c,nullptr)){ { simk::TsanIgnore ign; if(!st->tag.empty()) AW->completed[st->tag]++; } c->async_complete_response(); } });
					return false; }
				else r.out() << std::flush;
				break;
			case 'D': if(is_async){   /* the application returns to the event loop without starting an asynchronous operation and goes on with this response on a later event (comet style) */
					booster::shared_ptr<cppcms::http::context> c = app ? app->release_context() : ctx.shared_from_this(); { simk::TsanIgnore ign; AW->deferred_continuations++; }
					c->service().get_io_service().post([c,st]{ if(writer_steps(st,*c,nullptr)){ { simk::TsanIgnore ign; if(!st->tag.empty()) AW->completed[st->tag]++; } c->async_complete_response(); } });
					return false; }
				break;
			case 'b': r.setbuf((int)n); break;
			case 'h': r.set_header("X-T" + std::to_string(n),"v" + std::to_string(n*7)); break;
			case 'H': r.add_header("X-A","a" + std::to_string(n)); break;                    /* several header lines of one name */
			case 'e': r.set_header("X-E" + std::to_string(n),"gone"); r.erase_header("X-E" + std::to_string(n)); break;   /* set and taken back: must not be sent */
			case 'c': r.set_cookie(cppcms::http::cookie("ck" + std::to_string(n),"cv" + std::to_string(n*3))); break;
			case 'm': if(!raw_hdr && key.empty()){ int m = (int)n; if(m == 1) r.io_mode(cppcms::http::response::nogzip); else if(m == 3 && is_async) r.io_mode(cppcms::http::response::asynchronous); } break;
			case 'a': if(is_async) r.full_asynchronous_buffering(n != 0); break;
			case 'r': if(pos == 0 && !raw_hdr && key.empty()){ raw_hdr = true; r.io_mode(is_async ? cppcms::http::response::asynchronous_raw : cppcms::http::response::raw);
					// the application writes its own (CGI style) header block, in pieces of n bytes
					// the two headers the protocol back-ends interpret are spelled in different letter cases (header names are case-insensitive), half of the time with a status other than 200
					static const char *stl[] = {"Status: 200 OK","status: 203 Alt","STATUS: 200 OK","sTaTuS: 203 Alt"}; std::string hb = std::string("Content-Type: text/plain\r\nX-Raw: yes\r\n") + stl[salt & 3] + "\r\n\r\n"; size_t step = n > 0 ? (size_t)n : hb.size();
					for(size_t o=0;o<hb.size();o+=step){ r.out().write(hb.data()+o,std::min(step,hb.size()-o)); if(n % 2) r.out() << std::flush; } } break;
			case 'l': { r.content_length(n); } break;
			case 't': if(key.empty()) r.content_type(n == 0 ? "text/plain" : n == 1 ? "application/octet-stream" : "text/html; charset=utf-8"); break;
			default: break; }
		}
		if(!key.empty()) ctx.cache().store_page(key,30);
		return true;
	}
	bool writer(const std::string &tag){
		booster::shared_ptr<WState> st(new WState()); st->script = request().get("s"); st->salt = strtoull(request().get("salt").c_str(),nullptr,10); st->key = request().get("cache"); st->tag = tag; st->async = is_asynchronous();
		response().set_plain_text_header();     // a cached page carries no headers: whatever decides its encoding is fixed before fetch_page
		if(!st->key.empty() && cache().fetch_page(st->key)) return true;
		return writer_steps(st,context(),this);
	}
	virtual void main(std::string path){
		std::string tag = request().getenv("HTTP_X_REQ_ID");
		{ simk::TsanIgnore ign; if(tag.empty()) AW->untagged_entries++; else AW->entered[tag]++; }
		if(path.compare(0,6,"/throw") == 0) throw std::runtime_error("the application failed on purpose");   /* an exception leaving the handler: that request is answered 500, nothing else is disturbed */
		if(path.compare(0,7,"/writer") == 0){ if(!writer(tag)) return; } else echo();
		{ simk::TsanIgnore ign; if(!tag.empty()) AW->completed[tag]++; }
		if(is_asynchronous()) release_context()->async_complete_response();
	}
};


// mounted for one host name only, in front of the synchronous echo application
class HostApp : public TestApp { public: HostApp(cppcms::service &s) : TestApp(s) {} const char *banner() override { return "H internal\n"; } };

// per-context data of the content-filter application
struct FilterData {
	std::string tag; int mode = 0;   // 1 raw, 2 multipart
	std::string raw; int chunks = 0, end = 0, err = 0, new_file = 0, progress = 0, ready = 0; long long last_size = -1; bool size_shrank = false;
	int behav = 0; std::string seen; bool bad_progress = false;   // behav: 0 passive; 1 reads every completed part (validation); 2 also re-reads the part on every progress call; 3 sniffs the first 4 bytes of a completed part
	static std::string slurp(cppcms::http::file &f,size_t max){ std::istream &in = f.data(); in.clear(); in.seekg(0); std::string r; char b[512]; while(r.size() < max){ in.read(b,(std::streamsize)std::min(sizeof(b),max - r.size())); std::streamsize n = in.gcount(); if(n <= 0) break; r.append(b,(size_t)n); } in.clear(); return r; }
	struct RawF : cppcms::http::raw_content_filter { FilterData *d;
		void on_data_chunk(void const *p,size_t n) override { d->raw.append((char const *)p,n); d->chunks++; if(d->behav == 6 && d->chunks == 1){ { simk::TsanIgnore ign; AW->uploads_aborted++; } throw cppcms::http::abort_upload(415); } }
		void on_end_of_content() override { d->end++; }
		void on_error() override { d->err++; simk::TsanIgnore ign; AW->on_error[d->tag]++; } } rf;
	struct MpF : cppcms::http::multipart_filter { FilterData *d;
		void on_new_file(cppcms::http::file &) override { d->new_file++; d->last_size = -1; if(d->behav == 4 && d->new_file == 1){ { simk::TsanIgnore ign; AW->uploads_aborted++; } throw cppcms::http::abort_upload(403); } }   /* behav 4: the filter refuses the upload when it sees its first part, 5: when that part is complete */
		void on_upload_progress(cppcms::http::file &f) override { d->progress++; if((long long)f.size() < d->last_size) d->size_shrank = true; d->last_size = f.size(); if(d->behav == 2){ std::string r = slurp(f,(size_t)1 << 30); if((long long)r.size() != (long long)f.size()) d->bad_progress = true; } }
		void on_data_ready(cppcms::http::file &f) override { d->ready++; if(d->behav == 5 && d->ready == 1){ { simk::TsanIgnore ign; AW->uploads_aborted++; } throw cppcms::http::abort_upload(422); } if(d->behav == 1 || d->behav == 2){ std::string r = slurp(f,(size_t)1 << 30); d->seen += f.name() + ":" + std::to_string(r.size()) + ":" + std::to_string((unsigned long long)wire::fnv(r)) + ";"; } else if(d->behav == 3){ d->seen += f.name() + ":" + slurp(f,4) + ";"; } }
		void on_end_of_content() override { d->end++; }
		void on_error() override { d->err++; simk::TsanIgnore ign; AW->on_error[d->tag]++; } } mf;
	FilterData(){ rf.d = this; mf.d = this; }
};
class FilterApp : public TestApp {
public:
	FilterApp(cppcms::service &s) : TestApp(s) {}
	virtual void main(std::string path){
		std::string tag = request().getenv("HTTP_X_REQ_ID");
		if(!request().is_ready()){
			// called before the content is read: install the content filter
			if(path == "/aborthdr"){ { simk::TsanIgnore ign; AW->uploads_aborted++; } throw cppcms::http::abort_upload(401); }   /* the application refuses the upload on the strength of the headers alone */
			FilterData *fd = new FilterData; fd->tag = tag; fd->mode = path.compare(0,7,"/echomp") == 0 ? 2 : 1; if(path == "/abortraw") fd->behav = 6;
			if(request().content_type_parsed().is_multipart_form_data() == false) fd->mode = 1;
			if(fd->mode == 2 && path.size() > 7 && path[7] >= '1' && path[7] <= '5') fd->behav = path[7] - '0';
			{ std::string xl = request().getenv("HTTP_X_LIMIT"); if(!xl.empty()){ long long l = atoll(xl.c_str()); request().limits().content_length_limit((size_t)l); request().limits().multipart_form_data_limit(l); } }   // per-request limits, set before the content is read
			context().reset_specific<FilterData>(fd);
			if(fd->mode == 1) request().set_content_filter(fd->rf); else request().set_content_filter(fd->mf);
			{ simk::TsanIgnore ign; AW->filters_installed++; }
			return;
		}
		{ simk::TsanIgnore ign; if(tag.empty()) AW->untagged_entries++; else AW->entered[tag]++; }
		FilterData *fd = context().get_specific<FilterData>();
		if(fd && fd->behav) for(auto &f:request().files()){ f->data().clear(); f->data().seekg(0); }   // the filter has read the parts: an application that reads them again rewinds them itself (post() values are built by cppcms)
		echo();
		if(fd){ std::ostringstream x; x << "X mode=" << fd->mode << " end=" << fd->end << " err=" << fd->err;
			if(fd->mode == 1) x << " raw " << blob(fd->raw) << " chunks>0=" << (fd->chunks > 0);
			else { x << " new=" << fd->new_file << " ready=" << fd->ready << " shrank=" << fd->size_shrank; if(fd->behav) x << " behav=" << fd->behav << " seen=" << (unsigned long long)wire::fnv(fd->seen) << " badprog=" << fd->bad_progress; }
			response().out() << x.str() << "\n"; }
		{ simk::TsanIgnore ign; if(!tag.empty()) AW->completed[tag]++; }
		release_context()->async_complete_response();
	}
};

// script with 'p' tokens normalised to 'w' for the model
std::string normalise_script(const std::string &s){ std::string r = s; for(size_t i=0;i<r.size();i++) if(r[i] == 'p' && (i == 0 || r[i-1] == '.')){ r[i] = 'w'; } return r; }

std::string gunzip(const std::string &in,bool &ok){
	z_stream z; memset(&z,0,sizeof(z)); ok = false; if(inflateInit2(&z,15+16) != Z_OK) return "";
	std::string out; char buf[65536]; z.next_in = (Bytef*)in.data(); z.avail_in = (uInt)in.size(); int rc;
	do { z.next_out = (Bytef*)buf; z.avail_out = sizeof(buf); rc = inflate(&z,Z_NO_FLUSH); if(rc != Z_OK && rc != Z_STREAM_END) break; out.append(buf,sizeof(buf)-z.avail_out); } while(rc != Z_STREAM_END);
	ok = rc == Z_STREAM_END && z.avail_in == 0; inflateEnd(&z); return out;
}

// ---------------------------------------------------------------- one planned exchange on a connection
struct Exchange {
	Req req; std::string tag; bool well_formed = true; bool is_writer = false; std::string script; uint64_t salt = 0; bool accept_gzip = false;
	std::string wire;                 // bytes to send
	std::vector<int> seg;             // client write segmentation
	std::vector<int> seg_delay_ms;    // pause after the i-th segment (a slow peer)
	bool pre_sent = false;            // pipelining: this request's bytes travel at the tail of the previous exchange's wire image
	bool http11 = false, keepalive = false; FcgiLayout fl;
	// faults on this exchange
	int close_after = -1;             // client closes (both directions) after sending this many bytes of this exchange
	int halfclose_after = -1;         // client half-closes after this many bytes
	int reset_after = -1;
	int abort_after = -1;             // fault: the client resets the connection after receiving this many bytes of the response
	bool aborted = false;
	bool stall = false;               // never sends more than stall_at bytes and never closes
	// result
	bool done = false; bool timed_out = false; bool conn_closed_early = false; std::string raw; Response resp; FcgiOut fo; int64_t t_start = 0, t_sent = -1, t_done = -1;
	std::string mut;                  // malformed: name of the mutation applied
	std::string after;                // malformed: close | halfclose | wait
	bool must_not_serve = false;      // malformed classes that cannot be served: handler never entered, status >= 400 or close
	bool hang = false; bool server_closed = false; bool expect_413 = false;
};

struct Client : simk::Actor {
	int proto = 0; std::string addr; std::vector<Exchange> ex; size_t cur = 0;
	std::shared_ptr<simk::Conn> c; bool connected = false, finished = false, refused = false;
	size_t sent = 0, segi = 0; std::string in; bool eof_seen = false; bool faulted = false;
	size_t cap_to_server = 4096, cap_to_client = 4096; std::vector<int> read_pace; size_t rpi = 0;
	int read_delay_ms = 0; int64_t rhold_until = -1; int n_read_pauses = 0;   // a slow reader: pause after every read (below the inactivity time-out), as long as data keeps coming
	int64_t deadline = -1; int64_t timeout_us = 120LL*1000000; int64_t bad_wait_us = 40LL*1000000; int64_t start_delay_us = 0; int64_t t_created = 0;
	simk::Rng rng; int n_pauses = 0;
	const char *name() override { return "client"; }
	Exchange &E(){ return ex[cur]; }
	int64_t hold_until = -1;   // slow peer: nothing is sent before this time
	bool want_send(){ if(!connected || finished || faulted) return false; if(hold_until > simk::now_us()) return false; Exchange &e = E(); if(e.stall && e.close_after >= 0 && (int)sent >= e.close_after) return false; return sent < e.wire.size() && c->send_room() > 0; }
	bool want_recv(){ if(rhold_until > simk::now_us()) return false; return connected && !finished && (c->avail() > 0 || (c->eof() && !eof_seen)); }
	bool enabled() override {
		if(finished) return false;
		if(!connected) return simk::now_us() >= t_created + start_delay_us && simk::is_listening(addr) && simk::is_listening("tcp:8090");   // the back-end of the forwarding rule is up as well
		if(deadline >= 0 && simk::now_us() >= deadline) return true;
		if(!E().well_formed && E().wire.empty() && E().t_sent < 0) return true;
		return want_send() || want_recv();
	}
	int64_t next_time() override { if(finished) return -1; if(!connected) return simk::is_listening(addr) && simk::is_listening("tcp:8090") ? t_created + start_delay_us : -1; if(hold_until > simk::now_us() && (deadline < 0 || hold_until < deadline)) return hold_until; if(rhold_until > simk::now_us() && (deadline < 0 || rhold_until < deadline)) return rhold_until; return deadline; }
	void finish_all(bool early){ for(size_t i=cur;i<ex.size();i++) if(!ex[i].done){ ex[i].done = true; ex[i].conn_closed_early = early; ex[i].t_done = simk::now_us(); } finished = true; if(c) c->close(); }
	void start_exchange(){ sent = 0; segi = 0; deadline = simk::now_us() + timeout_us; E().t_start = simk::now_us(); if(E().pre_sent){ sent = E().wire.size(); E().t_sent = simk::now_us(); } }
	void complete_current(){ Exchange &e = E(); e.done = true; e.t_done = simk::now_us(); cur++; if(cur >= ex.size()){ finished = true; c->close(); } else { start_exchange(); if(!in.empty()) try_parse(); } }   // a pipelined response may be here already
	// Parsing the whole receive buffer after every step is quadratic for a large response that arrives in thousands of small pieces (a 40 s
	// "real-time hang" of the harness itself under FastCGI, found by a soak run). This gate decides cheaply and incrementally whether the full
	// parsers could possibly report a complete (or broken) response; it may say yes too often, never no when they would say yes.
	size_t g_last = 0, f_scan = 0; bool f_stop = false; long g_hdr_end = -1, g_cl = -1; bool g_chunked = false; size_t g_scan = 0;
	bool maybe_complete(){
		if(in.size() < g_last){ f_scan = 0; f_stop = false; g_hdr_end = -1; g_cl = -1; g_chunked = false; g_scan = 0; } g_last = in.size();
		if(eof_seen || in.size() <= 16384) return true;
		if(proto == 2){ int id = E().fl.request_id;
			while(!f_stop && f_scan + 8 <= in.size()){ const unsigned char *h = (const unsigned char*)in.data() + f_scan; size_t cl = (h[4] << 8) | h[5], pl = h[6]; int type = h[1], rid = (h[2] << 8) | h[3];
				if(h[0] != 1 || (type != 6 && type != 7 && type != 10) || (type != 10 && rid != id)){ f_stop = true; break; }   // END_REQUEST or anything the demultiplexer will object to
				if(f_scan + 8 + cl + pl > in.size()) break; f_scan += 8 + cl + pl; }
			return f_stop; }
		if(proto == 0){
			if(g_hdr_end < 0){ size_t p = in.find("\r\n\r\n",g_scan > 3 ? g_scan - 3 : 0); g_scan = in.size(); if(p == std::string::npos) return in.size() > 70000;   // no header block that long: let the parser say so
				g_hdr_end = (long)p; std::string h = lower(in.substr(0,p)); g_chunked = h.find("chunked") != std::string::npos; size_t c = h.find("\r\ncontent-length:"); if(c != std::string::npos) g_cl = atol(h.c_str() + c + 17); }
			if(g_chunked) return in.size() >= 4 && in.compare(in.size()-4,4,"\r\n\r\n") == 0;
			if(g_cl >= 0) return in.size() >= (size_t)g_hdr_end + 4 + (size_t)g_cl;
			return true; }
		return true;
	}
	void try_parse(){
		if(!maybe_complete()) return;
		Exchange &e = E();
		if(!e.well_formed){
			// whatever comes back: a complete response or the server closing its side ends the exchange
			bool complete = false;
			if(proto == 0){ Response r = http_parse(in,eof_seen); if(r.complete){ e.resp = r; complete = true; } }
			else if(proto == 2){ FcgiOut o = fcgi_demux(in,e.fl.request_id,eof_seen); if(o.end){ e.fo = o; e.resp = cgi_parse(o.out); complete = true; } }
			if(eof_seen){ e.server_closed = true; if(proto == 1 && !in.empty()) e.resp = cgi_parse(in); }
			if(complete || eof_seen){ e.raw = in; finish_all(true); }
			return; }
		if(proto == 0){ Response r = http_parse(in,eof_seen); if(r.complete){ e.resp = r; e.raw = in.substr(0,r.consumed); in.erase(0,r.consumed); bool ka = r.keep_alive && !eof_seen; if(!ka){ e.done = true; e.t_done = simk::now_us(); cur++; if(cur < ex.size()) finish_all(true); else { finished = true; c->close(); } } else complete_current(); }
			else if(eof_seen){ e.resp = r; e.raw = in; finish_all(true); } }
		else if(proto == 1){ if(eof_seen){ e.raw = in; e.resp = cgi_parse(in); e.done = true; e.t_done = simk::now_us(); cur++; if(cur < ex.size()) finish_all(true); else { finished = true; c->close(); } } }
		else { FcgiOut o = fcgi_demux(in,e.fl.request_id,eof_seen);
			if(o.end || !o.framing_error.empty()){ e.fo = o; e.raw = in.substr(0,o.consumed); e.resp = cgi_parse(o.out); in.erase(0,o.consumed); if(e.fl.keep_conn && !eof_seen && o.framing_error.empty()) complete_current(); else { e.done = true; e.t_done = simk::now_us(); cur++; if(cur < ex.size()) finish_all(true); else { finished = true; c->close(); } } }
			else if(eof_seen){ e.fo = o; e.raw = in; e.resp = cgi_parse(o.out); finish_all(true); } }
	}
	void step() override {
		if(!connected){ c = simk::client_connect(addr,cap_to_server,cap_to_client); if(!c){ refused = true; finish_all(true); return; } connected = true; start_exchange(); return; }
		if(deadline >= 0 && simk::now_us() >= deadline){ if(!E().well_formed) E().hang = true; else E().timed_out = true; finish_all(true); return; }
		if(!E().well_formed && E().wire.empty() && E().t_sent < 0){ Exchange &e = E(); e.t_sent = simk::now_us(); if(e.after == "reset"){ c->do_reset(); finish_all(true); return; } if(e.after == "close"){ finish_all(true); return; } if(e.after == "halfclose") c->shutdown_wr(); deadline = simk::now_us() + bad_wait_us; return; }
		bool ws = want_send(), wr = want_recv();
		if(ws && (!wr || rng.below(2))){
			Exchange &e = E(); size_t room = c->send_room(); size_t want = segi < e.seg.size() && e.seg[segi] > 0 ? (size_t)e.seg[segi] : e.wire.size(); segi++;
			size_t k = std::min(std::min(room,want),e.wire.size()-sent);
			int lim = e.close_after >= 0 ? e.close_after : e.halfclose_after >= 0 ? e.halfclose_after : e.reset_after; if(lim >= 0 && sent + k > (size_t)lim) k = (size_t)lim > sent ? (size_t)lim - sent : 0;
			c->send(e.wire.data()+sent,k); sent += k; simk::trace_mix(0xC11E00 + k);
			if(segi >= 1 && segi-1 < e.seg_delay_ms.size() && e.seg_delay_ms[segi-1] > 0 && sent < e.wire.size()){ int64_t d = e.seg_delay_ms[segi-1]*1000LL; hold_until = simk::now_us() + d; if(deadline >= 0) deadline += d; n_pauses++; }
			if(sent == e.wire.size() && e.t_sent < 0){ e.t_sent = simk::now_us();
				if(!e.well_formed){
					if(e.after == "reset"){ c->do_reset(); finish_all(true); return; }   // RST right behind the last byte sent
					if(e.after == "close"){ finish_all(true); return; }
					if(e.after == "halfclose") c->shutdown_wr();
					deadline = simk::now_us() + bad_wait_us; }
			}
			if(lim >= 0 && sent >= (size_t)lim){ faulted = true; if(e.t_sent < 0) e.t_sent = simk::now_us();
				if(e.reset_after >= 0){ c->do_reset(); finish_all(true); return; }
				if(e.close_after >= 0 && !e.stall){ // full close: nothing more can be observed
					finish_all(true); return; }
				if(e.halfclose_after >= 0) c->shutdown_wr();
			}
			return;
		}
		if(wr){ size_t want = rpi < read_pace.size() && read_pace[rpi] > 0 ? (size_t)read_pace[rpi] : 1u<<20; if(!read_pace.empty()) rpi = (rpi+1) % read_pace.size();
			size_t k = c->recv(in,want); simk::trace_mix(0xC11F00 + k); if(c->eof()) eof_seen = true;
			if(read_delay_ms > 0 && k > 0 && n_read_pauses < 400){ int64_t d = read_delay_ms*1000LL; rhold_until = simk::now_us() + d; if(deadline >= 0) deadline += d; n_read_pauses++; }
			if(E().abort_after >= 0 && (int)in.size() >= E().abort_after && !E().done){ E().aborted = true; c->do_reset(); finish_all(true); return; }
			try_parse(); }
	}
};

// ---------------------------------------------------------------- the engine
struct E1 : Engine {
	bool fork_per_run(const J &) override { return true; } bool always_forks() override { return true; } bool exec_per_run() override { return true; }   // address-ordered containers in the HTTP watchdog: pristine heap per run

	// ---- generation helpers
	static J gen_segs(simk::Rng &r,size_t len){ J a = J::arr(); unsigned mode = r.below(5);
		if(mode == 0) return a;                                              // everything at once
		if(mode == 1){ int n = 1 + r.below(6); for(int i=0;i<n;i++) a.push((int)(1 + r.below(len/ (n) + 2))); return a; }
		if(mode == 2){ int n = 3 + r.below(40); for(int i=0;i<n;i++) a.push((int)(1 + r.below(4))); return a; }                      // byte dribble, then the rest
		if(mode == 3){ int n = 1 + r.below(12); for(int i=0;i<n;i++) a.push((int)(1 + r.below(200))); return a; }
		int n = 1 + r.below(3); for(int i=0;i<n;i++) a.push((int)(1 + r.below(len + 1))); return a; }
	static std::string rnd_token(simk::Rng &r,int minl,int maxl){ static const char al[] = "abcdefghijklmnopqrstuvwxyzABCDEFGHIJKLMNOPQRSTUVWXYZ0123456789-_.~"; int n = minl + r.below(maxl-minl+1); std::string s; for(int i=0;i<n;i++) s += al[r.below(sizeof(al)-1)]; return s; }
	static std::string rnd_urlenc(simk::Rng &r,int maxl){ std::string s; int n = r.below(maxl+1); for(int i=0;i<n;i++){ unsigned x = r.below(10); if(x < 6) s += "abcXYZ019-_.~"[r.below(13)]; else if(x < 8){ char b[8]; snprintf(b,sizeof(b),"%%%02X",(unsigned)(1 + r.below(254))); for(int j=1;j<3;j++) if(r.below(2)) b[j] = (char)tolower((unsigned char)b[j]);   /* hex digits in either case, independently */ s += b; } else if(x == 8) s += '+'; else s += r.below(2) ? "%2F" : "%2f"; } return s; }
	static bool &gen_fwd(){ static bool v = false; return v; }   // the plan being generated forwards the last request of its (only) connection
	static size_t &gen_limit(){ static size_t v = 0; return v; }
	static size_t &gen_budget(){ static size_t v = 1u<<30; return v; }   // largest request body affordable with this run's buffer / channel sizes   // content limit (bytes) of the run being generated, 0 = default
	static J gen_req(simk::Rng &r,const std::string &prop,bool thorough,bool async_mount,int idx){
		J q = J::obj();
		static const char *methods[] = {"GET","GET","POST","POST","PUT","DELETE","OPTIONS","X-Custom.Method"};
		std::string m = methods[r.below(8)]; q["method"] = m; q["script"] = async_mount ? "/a" : "/s";
		bool filt = async_mount && (m == "POST" || m == "PUT") && (prop == "C12" || prop == "C02") && r.below(3) == 0; if(filt) q["script"] = "/f";
		std::string path = filt && r.below(2) ? "/echomp" : "/echo"; if(path == "/echomp" && r.below(2)) path += (char)('1' + r.below(r.below(2) ? 3 : 5)); if(filt && r.below(6) == 0) path = r.below(2) ? "/abortraw" : "/aborthdr";   /* the digit selects what the multipart filter does with the parts (reads them / sniffs them) */ int ns = r.below(4); for(int i=0;i<ns;i++){ path += "/"; unsigned x = r.below(8); if(x == 0) path += ""; else if(x == 1) path += r.below(2) ? "%41b%2Fc" : "%4ab%2fc%e2%82%Ac"; else if(x == 2) path += r.below(3) ? "a%20b" : "a%20sb%25n%25s%20s";   /* what a printf-style formatter must never see as its format */ else if(x == 3) path += r.below(3) ? "." : "u{8BIT}"; else path += rnd_token(r,1,8); }
		if(!filt && r.below(10) == 0) path = std::string(q.gets("script") == "/a" || r.below(2) ? "/f" : "/a") + path;   /* the path begins with the name of ANOTHER configured script (http.script_names /s /a /f): the first name the URL starts with is the script, the rest is path */
		q["path"] = path; if(filt && r.below(3) == 0) q["xlimit_mode"] = 1 + (int)r.below(4);   /* the filter application sets the limits of this very request: half the body, one byte less, exactly, more than enough */
		if(r.below(3) == 0){ static const char *hosts[] = {"internal.example","internal.example","internal.example:8080","xinternal.example","internal.example.evil","internal.example:80x","other.example:8080"}; q["host"] = hosts[r.below(7)]; }   // an application is mounted for the host internal.example(:port) only: every request of a kept-alive connection is dispatched by its own Host
		if(!filt && gen_fwd()) q["host"] = "fwd.example";   /* forwarding.rules: requests for this host are relayed to a second service (SCGI back-end) whatever front-end they arrived on */
		if(r.below(4) == 0) q["host_last"] = 1;
		if(r.below(3)){ std::string qs; int n = r.below(5); for(int i=0;i<n;i++){ if(i) qs += "&"; qs += rnd_token(r,1,5) + (r.below(8) ? "=" : "") ; qs += rnd_urlenc(r,10); if(r.below(12)==0) qs += "&" ; } q["query"] = qs; q["has_query"] = true; }
		J hs = J::arr(); int nh = r.below(7); if(r.below(6) == 0) nh = 20 + r.below(120);   // many headers: the environment table grows through several sizes
		for(int i=0;i<nh;i++){ J h = J::arr(); static const char *names[] = {"X-Custom","Accept","User-Agent","x-lower-case","X-Mixed-Case-Header","Accept-Language","Referer","X-A"}; std::string nm = names[r.below(8)]; nm += std::to_string(i); h.push(nm);
			std::string v = rnd_token(r,0,nh > 20 ? 6 : 20); if(r.below(6) == 0) v += "{8BIT}" + rnd_token(r,0,4); if(r.below(3)==0 && nh <= 20) v += (v.empty() ? "x " : " ") + rnd_token(r,1,6) + "; q=0." + std::to_string(r.below(10)) + ", \"quoted \\\" str\" (comment)"; h.push(v); if(r.below(5) == 0) h.push(1 + (int)r.below(2)); hs.push(h); }   // third element: send the value folded over two or three lines (HTTP)
		// long values (around and above half a string-pool page = 1024 bytes, and above a whole page) get pages of their own in the environment's pool
		// the front-ends refuse a request head above 16 KiB (http: bytes read until the end of the headers, scgi: header block, which repeats path and query in REQUEST_URI): all long fields of one request share a budget
		int long_budget = 7000;
		if(r.below(5) == 0){ int nl = 1 + r.below(2); for(int i=0;i<nl;i++){ unsigned x = r.below(3); int len = x == 0 ? 1018 + (int)r.below(14) : x == 1 ? 1025 + (int)r.below(1023) : 2048 + (int)r.below(4000); if(len > long_budget) continue; long_budget -= len; J h = J::arr(); h.push("X-Long" + std::to_string(i)); h.push(rnd_token(r,len,len)); if(r.below(2)) hs.a.insert(hs.a.begin(),h); else hs.push(h); } }
		if(r.below(20) == 0){ J h = J::arr(); h.push("X-Long-Name-" + rnd_token(r,110,300)); h.push(rnd_token(r,0,10)); hs.push(h); }   // FastCGI: name length needs the 4-byte form
		if(r.below(20) == 0 && long_budget >= 2*1020){ int len = 1020 + (int)r.below(std::min(1980,long_budget/2 - 1020) + 1); long_budget -= 2*len; q["query"] = "long=" + rnd_token(r,len,len); q["has_query"] = true; }
		if(r.below(25) == 0 && long_budget >= 2*1020){ int len = 1020 + (int)r.below(std::min(1480,long_budget/2 - 1020) + 1); long_budget -= 2*len; path += "/" + rnd_token(r,len,len); q["path"] = path; }
		if(r.below(4) == 0){ static const char *fw[] = {"10.0.0.7","192.168.44.5","2001:db8::17","203.0.113.9, 10.0.0.1","unknown"}; J h = J::arr(); h.push("X-Forwarded-For"); h.push(fw[r.below(5)]); hs.a.insert(hs.a.begin() + r.below(hs.a.size() + 1),h); }   /* behind a proxy (http.proxy.behind) this header, request by request, is the peer's address; otherwise it is a header like any other */
		q["headers"] = hs;
		J cs = J::arr(); int nc = r.below(4); for(int i=0;i<nc;i++){ J c = J::arr(); c.push(rnd_token(r,1,6) + std::to_string(i)); c.push(rnd_token(r,0,12)); c.push((int)(r.below(3)==0)); cs.push(c); } q["cookies"] = cs;
		if((m == "POST" || m == "PUT") && (prop == "C12" ? r.below(10) < 8 : r.below(10) == 0)){
			static const char bal[] = "abcdefghijklmnopqrstuvwxyzABCDEFGHIJKLMNOPQRSTUVWXYZ0123456789-_"; int bl = 1 + r.below(r.below(3) ? 30 : 70); std::string bnd; for(int i=0;i<bl;i++) bnd += bal[r.below(sizeof(bal)-1)]; if(r.below(6) == 0) bnd = "-" + bnd; if(bnd.size() > 70) bnd.resize(70);
			q["body_kind"] = "multipart"; q["boundary"] = bnd; q["content_type"] = "multipart/form-data; boundary=" + bnd;
			J parts = J::arr(); int np = r.below(prop == "C12" ? 9 : 4); size_t budget = std::min<size_t>(thorough ? 300000 : 60000,gen_budget());
			for(int i=0;i<np;i++){ J pt = J::obj(); pt["name"] = rnd_token(r,1,10) + std::to_string(i); pt["quoted"] = (int)(r.below(4) != 0); bool file = r.below(2);
				if(file){ pt["filename"] = r.below(5) ? rnd_token(r,1,12) + ".bin" : std::string("");
					if(r.below(5) == 0){ static const char *odd[] = {"a\\b.bin","dir\\sub\\","q\"uote\".bin","semi;colon=x.bin","sp ace (1).bin","\\","tail\\\\","\"","C:\\upload\\f.txt"}; pt["filename"] = odd[r.below(9)]; }   /* values that need quoted-pairs: backslashes (also last), double quotes, separators */ pt["has_filename"] = 1; static const char *cts[] = {"application/octet-stream","text/plain","image/png","text/plain; charset=utf-8"}; pt["ctype"] = cts[r.below(4)]; }
				unsigned x = r.below(10); size_t len = x < 5 ? r.below(200) : x < 8 ? r.below(5000) : r.below(budget); if(len > budget) len = budget; budget -= len; if(!file && len > 3000) len = r.below(3000);
				if(!file && gen_limit() && gen_limit() <= 65536 && r.below(3) == 0){ len = gen_limit() - 1 + r.below(3); }   // a field exactly at / one off its size limit
				pt["len"] = (long long)len; pt["seed"] = (long long)r.below(1000000); pt["fill"] = (int)(r.below(3) == 0 ? 2 : r.below(2)); pt["lookalike"] = (int)r.below(4);
				parts.push(pt); }
			q["parts"] = parts;
		}
		else if(m == "POST" || m == "PUT"){ unsigned x = r.below(10); size_t maxb = thorough ? 262144 : 65536;
			if(x < 4){ std::string b; int n = r.below(8); for(int i=0;i<n;i++){ if(i) b += "&"; b += rnd_token(r,1,6) + "=" + rnd_urlenc(r,30); } q["body_kind"] = "form"; q["body"] = b; q["content_type"] = "application/x-www-form-urlencoded"; }
			else if(x < 9){ maxb = std::min(maxb,gen_budget()); size_t len = r.below(4) == 0 ? r.below(maxb) : r.below(std::min<size_t>(3000,maxb)); q["body_kind"] = "raw"; q["body_len"] = (long long)len; q["body_seed"] = (long long)r.below(1000000); q["body_fill"] = (int)r.below(3); q["content_type"] = r.below(2) ? "application/octet-stream" : "text/plain; charset=utf-8"; }
			else { q["body_kind"] = "raw"; q["body_len"] = 0; q["body_seed"] = 1; q["content_type"] = "application/octet-stream"; } }
		(void)prop; (void)idx;
		return q;
	}
	static Req req_from(const J &q){
		Req r; r.method = q.gets("method","GET"); if(r.method.empty()) r.method = "GET"; r.script = q.gets("script","/s"); if(r.script != "/a" && r.script != "/f") r.script = "/s"; r.path = q.gets("path","/echo"); if(r.path.empty() || r.path[0] != '/') r.path = "/" + r.path;
		{ std::string h = q.gets("host"); static const char *known[] = {"sim.example","internal.example","internal.example:8080","xinternal.example","internal.example.evil","internal.example:80x","other.example:8080","fwd.example"}; r.host = "sim.example"; for(auto k:known) if(h == k) r.host = h; r.host_last = q.geti("host_last") != 0; }
		r.has_query = q.geti("has_query"); r.query = q.gets("query");
		// "{8BIT}" in a header value, the path or the query stands for bytes above 0x7f (UTF-8 and ISO-8859-1 text, 0x80, 0xff): legal in field values (obs-text) and seen in request targets
		auto hi = [](std::string v){ for(size_t p = v.find("{8BIT}");p != std::string::npos;p = v.find("{8BIT}",p)) v.replace(p,6,"caf\xc3\xa9\xe9\x80\xff\xfe"); return v; };
		r.path = hi(r.path); r.query = hi(r.query);
		const J &hs = q.get("headers"); for(size_t i=0;i<hs.size();i++) if(hs.a[i].size() >= 2){ r.headers.push_back({hs.a[i].a[0].s,hi(hs.a[i].a[1].s)}); r.fold.push_back(hs.a[i].size() > 2 ? (int)hs.a[i].a[2].as_int() : 0); }
		const J &cs = q.get("cookies"); for(size_t i=0;i<cs.size();i++) if(cs.a[i].size() >= 2){ r.cookies.push_back({cs.a[i].a[0].s,cs.a[i].a[1].s}); r.cookie_quoted.push_back(cs.a[i].size() > 2 ? (int)cs.a[i].a[2].as_int() : 0); }
		r.content_type = q.gets("content_type");
		std::string bk = q.gets("body_kind");
		if(bk == "form"){ r.has_body = true; r.body = q.gets("body"); }
		else if(bk == "multipart"){
			r.has_body = true; r.boundary = q.gets("boundary","b"); if(r.boundary.empty()) r.boundary = "b"; r.content_type = "multipart/form-data; boundary=" + r.boundary;
			const J &ps = q.get("parts");
			for(size_t i=0;i<ps.size() && i<12;i++){ const J &pt = ps.a[i]; Req::Part p; p.name = pt.gets("name","n"); if(p.name.empty()) p.name = "n"; p.quoted = pt.geti("quoted",1); p.has_filename = pt.geti("has_filename"); p.filename = pt.gets("filename"); p.ctype = pt.gets("ctype");
				p.content = gen_bytes((uint64_t)pt.geti("seed"),(size_t)std::max<int64_t>(0,std::min<int64_t>(pt.geti("len"),1<<20)),(int)pt.geti("fill"));
				// adversarial look-alikes of the delimiter inside the content
				std::string delim = "\r\n--" + r.boundary; int la = (int)pt.geti("lookalike");
				if(la == 1 && !p.content.empty()){ for(size_t k=1;k<delim.size() && k*17 < p.content.size();k++) p.content.replace(k*17,std::min(k,p.content.size()-k*17),delim.substr(0,k).substr(0,std::min(k,p.content.size()-k*17))); }
				else if(la == 2){ p.content += delim.substr(0,delim.size()-1); }
				else if(la == 3 && p.content.size() > 8){ p.content.replace(p.content.size()/2,4,"\r\n--"); }
				// the real delimiter must not occur inside the content
				size_t f; while((f = p.content.find(delim)) != std::string::npos) p.content[f+2] = '+';
				r.parts.push_back(p); }
			r.body = multipart_body(r); }
		else if(bk == "raw"){ r.has_body = true; r.body = gen_bytes((uint64_t)q.geti("body_seed"),(size_t)std::max<int64_t>(0,std::min<int64_t>(q.geti("body_len"),1<<20)),(int)q.geti("body_fill")); }
		else r.content_type.clear();
		if(r.script == "/f" && r.has_body && q.geti("xlimit_mode") > 0){ long long b = (long long)r.body.size(); int m = (int)q.geti("xlimit_mode"); r.xlimit = m == 1 ? b/2 : m == 2 ? std::max<long long>(0,b-1) : m == 3 ? b : 2*b + 10; r.headers.push_back({"X-Limit",std::to_string(r.xlimit)}); r.fold.push_back(0); }
		return r;
	}

	J generate(uint64_t seed,const std::string &prop,bool thorough) override {
		simk::Rng r; r.seed(seed);
		J p = J::obj(); p["engine"] = "E1"; p["prop"] = prop;
		p["sched_seed"] = (unsigned long long)(r.next() >> 8); p["fault_seed"] = (unsigned long long)(r.next() >> 8);
		p["strategy"] = (int)r.below(3); p["pct_depth"] = 1 + (int)r.below(3); p["pct_len"] = 200 + (int)r.below(4000); p["tick_us"] = 1;   // byte-dribble runs burn ~1e6 scheduling steps: with a larger tick the simulated duration would exceed http.timeout and the watchdog would (rightly) cut connections
		static const int bufs[] = {1,7,64,1024,16384,65536};
		J cfg = J::obj(); cfg["reactor"] = (int)r.below(3); cfg["worker_threads"] = 1 + (int)r.below(3);
		cfg["output_buffer_size"] = bufs[r.below(6)]; cfg["async_output_buffer_size"] = bufs[r.below(6)]; cfg["input_buffer_size"] = bufs[r.below(6)];
		cfg["syslog"] = r.below(6) == 0 ? 1 + (int)r.below(2) : 0; cfg["proxy_behind"] = (int)(r.below(4) == 0); cfg["mount_style"] = r.below(2) ? 0 : (int)r.below(4); if(prop == "C03") cfg["grouping_locale"] = (int)(r.below(5) == 0); if((prop == "C02" || prop == "C12") && r.below(8) == 0){ static const int hk[] = {2097152,4194304,5242880}; cfg["huge_limits_kb"] = hk[r.below(3)]; }   /* limits of 2 GiB and more (given in KB): a site that takes very large uploads */
		cfg["gzip"] = (int)r.below(2); cfg["gzip_level"] = (int)r.below(10) - 1; cfg["gzip_buffer"] = r.below(2) ? 0 : bufs[1 + r.below(5)];
		cfg["http_timeout"] = 10 + (int)r.below(20); gen_limit() = 0; if(prop == "C12" && r.below(2)){ static const int lk[] = {1,4,16,64,2048}; cfg["content_limit_kb"] = lk[r.below(5)]; cfg["multipart_limit_kb"] = std::max<int>(lk[r.below(5)],(int)cfg.geti("content_limit_kb")*2); gen_limit() = (size_t)cfg.geti("content_limit_kb") * 1024; } { static const int fm[] = {0,1,100,4096,131072}; cfg["file_in_memory_limit"] = fm[r.below(5)]; }
		p["cfg"] = cfg;
		bool faults = r.below(3) == 0;
		if(prop == "C12" && r.below(4) == 0){ J fa = J::arr(); int nf = 1 + (int)r.below(3); for(int i=0;i<nf;i++) fa.push((int)r.below(r.below(2) ? 6 : 60)); p["disk_fail_at"] = fa; p["disk_sticky"] = (int)r.below(2); }   // disk full / I/O error while an upload spills to its temporary file
		p["p_short_read"] = r.below(2) ? (int)r.below(500) : 0; p["p_short_write"] = r.below(2) ? (int)r.below(500) : 0; p["p_eintr"] = faults ? (int)r.below(40) : 0; p["p_spurious"] = faults ? (int)r.below(80) : 0;
		if(prop == "C01" && r.below(4) == 0){ J cs = J::obj(); cs["at_ms"] = (int)(r.below(2) ? r.below(200) : r.below(20000)); cs["back_s"] = 2 + (int)r.below(9); cs["in_pause"] = (int)r.below(2); p["clock_step"] = cs; }
		if(r.below(6) == 0){ J af = J::arr(); int n = 1 + (int)r.below(3); for(int k=0;k<n;k++) af.push((int)r.below(8)); p["accept_fail_at"] = af; }   /* descriptor exhaustion: these accept() calls fail with EMFILE although a connection is pending; the service must go on accepting afterwards */
		int nconn = 1 + r.below(prop == "C03" ? 3 : 5);
		// a slow reader is alone in its plan: wherever a write blocks (a synchronous application on a worker thread, an asynchronous one that chose a blocking io mode) it
		// legitimately starves the other connections, which is not what is being checked
		bool slow_reader_plan = (prop == "C03" || prop == "C01") && r.below(12) == 0; if(slow_reader_plan) nconn = 1;
		// a forwarding plan: one connection whose last request is relayed to the second service (SCGI back-end); well-formed requests only, the relay has no time-outs of its own
		bool fwd_plan = !slow_reader_plan && prop == "C01" && r.below(8) == 0; gen_fwd() = fwd_plan; if(fwd_plan){ nconn = 1; p["fwd_plan"] = 1; p["accept_fail_at"] = J::arr(); }
		J conns = J::arr(); int tagn = 0;
		for(int ci=0;ci<nconn;ci++){
			J c = J::obj(); int proto = (int)r.below(3); bool async_mount = r.below(2); if(slow_reader_plan){ proto = 0; async_mount = true; } c["proto"] = proto; c["async"] = async_mount;
			c["cap_to_server"] = (int)(r.below(3) == 0 ? 1 + r.below(64) : 256 + r.below(65536)); c["cap_to_client"] = (int)(r.below(3) == 0 ? 1 + r.below(64) : 256 + r.below(262144));
			J rp = J::arr(); int nrp = r.below(4); for(int i=0;i<nrp;i++) rp.push((int)(1 + r.below(r.below(2) ? 16 : 5000))); c["read_pace"] = rp; c["start_delay_us"] = (int)r.below(2000);
			if(slow_reader_plan){ J rp2 = J::arr();   /* asynchronous mounts only: behind a synchronous application a slow reader legitimately ties up a worker thread and starves the other connections */ rp2.push((int)(500 + r.below(3000))); c["read_pace"] = rp2; c["read_delay_ms"] = (int)(cfg.geti("http_timeout",10) * (100 + (int)r.below(300))); c["cap_to_client"] = 2048 + (int)r.below(4096); }   // slow reader: small reads with a pause of 0.1..0.4 x http.timeout after each
			bool bad_conn = !fwd_plan && ((prop == "C02" && (ci == 0 || r.below(2))) || (prop == "C12" && r.below(4) == 0));   // C12: the last request of a quarter of the connections carries a malformed / mis-sized upload
			bool http11 = r.below(2); c["http11"] = http11; c["pipeline"] = (int)(!fwd_plan && r.below(3) == 0); int nreq = proto == 1 ? 1 : 1 + r.below(bad_conn ? 2 : 4); bool ka = nreq > 1 || r.below(3) == 0; c["keepalive"] = ka;
			{ int narrow = std::min(std::min((int)cfg.geti("input_buffer_size"),(int)c.geti("cap_to_server")),(int)c.geti("cap_to_client"));   /* the echo comes back through the channel to the client: form fields are echoed in full */ gen_budget() = narrow <= 8 ? 2500 : narrow <= 64 ? 16000 : 1u<<30; }
			J exs = J::arr();
			for(int i=0;i<nreq;i++){ J e = J::obj(); { char tb[40]; snprintf(tb,sizeof(tb),"q%dz%06llx",tagn,(unsigned long long)(wire::fnv("tag" + std::to_string(tagn)) & 0xffffff)); tagn++; e["tag"] = tb; }   // self-checking: a mutated tag cannot turn into another request's tag
				if(prop == "C03" || (prop != "C01" && r.below(4) == 0)){
					// writer exchange
					std::string sc; int n = r.below(thorough ? 40 : 14); static const int sizes[] = {0,1,2,63,64,65,1023,1024,1025,4096,16383,16384,16385,65534,65535,65536,65537,100000,200000};
					bool am = async_mount && r.below(2); bool rawmode = r.below(6) == 0;
					if(rawmode) sc += "r" + std::to_string(r.below(3) ? 1 + r.below(70) : 0) + ".";
					if(r.below(3)==0) sc += "b" + std::to_string(r.below(4) ? bufs[r.below(6)] : 0) + ".";
					if(!rawmode && r.below(3)==0) sc += "m" + std::string(am ? "3" : r.below(2) ? "1" : "0") + "."; if(async_mount && r.below(3)==0) sc += std::string("a") + (r.below(2) ? "1" : "0") + ".";
					int nh = r.below(4); for(int k=0;k<nh;k++) sc += "h" + std::to_string(r.below(50)) + "."; int nck = r.below(3); for(int k=0;k<nck;k++) sc += "c" + std::to_string(r.below(50)) + "."; if(!rawmode && r.below(4) == 0){ int na = 1 + r.below(3); for(int k=0;k<na;k++) sc += "H" + std::to_string(k*100 + r.below(50)) + "."; } if(!rawmode && r.below(5) == 0) sc += "e" + std::to_string(r.below(50)) + ".";
					if(r.below(4)==0) sc += "t" + std::to_string(r.below(3)) + ".";
					size_t total = 0; for(int k=0;k<n;k++){ unsigned x = r.below(10); if(x < 6){ size_t sz = r.below(3) ? r.below(300) : sizes[r.below(19)]; if(total + sz > (thorough ? 400000u : 150000u)) sz = 10; total += sz; sc += "w" + std::to_string(sz) + "."; } else if(x < 8) sc += (async_mount && r.below(2)) ? (r.below(3) == 0 ? "D." : "F.") : "f."; else if(x == 8) sc += "b" + std::to_string(bufs[r.below(6)]) + "."; else sc += "p" + std::to_string(r.below(40)) + "."; }
					{ // tiny buffers / channels make every byte a scheduling step: keep such runs small
						int ob = (int)cfg.geti("output_buffer_size"), ab = (int)cfg.geti("async_output_buffer_size"), cc = (int)c.geti("cap_to_client"); int narrow = std::min(std::min(ob,ab),cc); size_t cap_total = narrow <= 8 ? 3000 : narrow <= 64 ? 20000 : 400000;
						if(total > cap_total){ std::string sc2; size_t run = 0; size_t p0 = 0; while(p0 < sc.size()){ size_t q0 = sc.find('.',p0); if(q0 == std::string::npos) q0 = sc.size(); std::string t = sc.substr(p0,q0-p0); p0 = q0 + 1; if(!t.empty() && t[0] == 'w'){ size_t n0 = strtoul(t.c_str()+1,nullptr,10); if(run + n0 > cap_total) n0 = run < cap_total ? std::min<size_t>(cap_total-run,n0) % 97 : 3; run += n0; t = "w" + std::to_string(n0); } sc2 += t + "."; } sc = sc2; } }
					{ int ob = (int)cfg.geti("output_buffer_size"), ab = (int)cfg.geti("async_output_buffer_size"), cc = (int)c.geti("cap_to_client");
					  if(proto == 2 && !rawmode && std::min(std::min(ob,ab),cc) > 64 && r.below(10) == 0){ sc = std::string(async_mount ? "a1." : "") + "b800000.w" + std::to_string(300000 + r.below(100000)) + ".w" + std::to_string(250000 + r.below(150000)) + "."; } }   /* FastCGI: one flush of more than half a megabyte - a gather write of dozens of records, far more than one writev() takes */
					bool has_l = false; if(!rawmode && r.below(6) == 0){ size_t tot = script_body(normalise_script(sc),0).size(); sc = "l" + std::to_string(tot) + "." + sc; has_l = true; }   /* the application announces the length itself (response::content_length) */
					e["kind"] = "writer"; e["script"] = sc; e["salt"] = (long long)r.below(100000); e["gzip"] = (int)(r.below(3) == 0); if(rawmode || has_l) e["gzip"] = 0;   /* an announced length is the length of what the application writes: no content coding on top of it */ if(r.below(10) == 0) e["abort_after"] = (int)r.below(3000); if(!rawmode && r.below(8) == 0){ e["cache"] = "pg" + std::to_string(r.below(2)); std::string sc3; size_t p0 = 0; while(p0 < sc.size()){ size_t q0 = sc.find('.',p0); if(q0 == std::string::npos) q0 = sc.size(); std::string t = sc.substr(p0,q0-p0); p0 = q0 + 1; if(!t.empty() && t[0] != 't' && t[0] != 'm') sc3 += t + "."; } e["script"] = sc3; }
				} else { e["kind"] = "echo"; e["req"] = gen_req(r,prop,thorough,async_mount,i); if(i == nreq-1 && !bad_conn && !fwd_plan && (prop == "C01" || prop == "C02") && e.get("req").gets("script") != "/f" && r.below(12) == 0){ e["req"]["path"] = "/throw"; } if(i != nreq-1 && e.get("req").gets("host") == "fwd.example") e["req"]["host"] = "sim.example"; }   /* the relay closes the front connection when it is done: a forwarded request is the last one of its connection */
				J fl = J::obj(); J pc = J::arr(); int npc = r.below(5); for(int k=0;k<npc;k++) pc.push((int)(1 + r.below(r.below(2) ? 8 : 400))); fl["params_chunks"] = pc; J sc2 = J::arr(); int nsc = r.below(5); for(int k=0;k<nsc;k++) sc2.push((int)(1 + r.below(r.below(2) ? 16 : 70000))); fl["stdin_chunks"] = sc2;
				J pd = J::arr(); int npd = r.below(6); for(int k=0;k<npd;k++) pd.push((int)r.below(r.below(2) ? 8 : 256)); fl["paddings"] = pd; fl["request_id"] = 1 + (int)r.below(r.below(2) ? 3 : 65535); e["fcgi"] = fl;
				e["seg"] = gen_segs(r,600);
				// a slow peer: the head of the request trickles in over more than http.timeout, every pause well below it (an inactivity time-out must not fire)
				if(r.below(12) == 0){ J sg = J::arr(), dl = J::arr(); int n = 4 + (int)r.below(5); int T = (int)cfg.geti("http_timeout",10); for(int k=0;k<n;k++){ sg.push(5 + (int)r.below(40)); dl.push((int)(T * (200 + (int)r.below(250)))); } e["seg"] = sg; e["seg_delay_ms"] = dl; }
				if(bad_conn && i == nreq-1){ e["mut"] = gen_mutation(r,proto); if(prop == "C12"){ static const char *up[] = {"mp_cut","mp_cut","mp_cut","mp_no_final_boundary","mp_bad_part_header","mp_no_name","cl_bigger","cl_over_limit","truncate"}; e["mut"]["op"] = up[r.below(9)]; } if(cfg.geti("huge_limits_kb") && e.get("mut").gets("op") == "cl_over_limit") e["mut"]["two_gig"] = 1; if(e.gets("kind") == "writer"){ e["kind"] = "echo"; e["req"] = gen_req(r,prop,thorough,async_mount,i); } }
				exs.push(e); }
			c["ex"] = exs; conns.push(c); }
		// late staller (C02): the first connection stalls in the middle of its request head and is cut by the inactivity watchdog; long after that - when the server has been
		// idle - another peer does the same and must be cut as well
		if(prop == "C02" && !conns.a.empty() && r.below(5) == 0){ int T = (int)cfg.geti("http_timeout",10);
			auto staller = [&](J c,int delay_s){ c["proto"] = 0; c["start_delay_us"] = (long long)delay_s * 1000000; c["pipeline"] = 0; J e = c.get("ex").a.empty() ? J::obj() : c.get("ex").a[0]; if(!e.has("req")){ e["kind"] = "echo"; e["req"] = gen_req(r,prop,thorough,false,0); e["tag"] = "qL" + std::to_string(delay_s); e["seg"] = J::arr(); } e["kind"] = "echo"; if(delay_s > 0){ char tb[40]; snprintf(tb,sizeof(tb),"q%dz%06llx",tagn,(unsigned long long)(wire::fnv("tag" + std::to_string(tagn)) & 0xffffff)); tagn++; e["tag"] = tb; }   /* its own tag */ J m = J::obj(); m["op"] = "cl_bigger"; m["pos"] = (long long)(5 + r.below(30)); m["n"] = 1; m["byte"] = 0; m["len"] = (int)r.below(50); m["after"] = "wait"; e["mut"] = m; e["seg_delay_ms"] = J::arr(); J ex = J::arr(); ex.push(e); c["ex"] = ex; return c; };
			conns.a[0] = staller(conns.a[0],0); conns.push(staller(conns.a[0],T + 3 + (int)r.below(T + 4))); p["late_staller"] = 1; }
		p["conns"] = conns;
		return p;
	}


	// ---- malformed requests (C02): a valid encoding is mutated; "pos" values are taken modulo the length
	static J gen_mutation(simk::Rng &r,int proto){
		J m = J::obj(); unsigned x = r.below(100);
		static const char *generic[] = {"truncate","truncate","flip","insert","delete","garbage","dup_tail","mp_no_final_boundary","mp_bad_part_header","mp_no_name","mp_cut","fold_insert","fold_insert","odd_cookie","odd_cookie"};
		static const char *http_m[] = {"cl_negative","cl_huge","cl_nonnumeric","cl_duplicate","cl_bigger","cl_smaller","header_16k","bare_lf","nul_in_header","no_version","bad_uri","no_colon","header_spaces","cl_over_limit","odd_target","odd_target"};
		static const char *scgi_m[] = {"len_bigger","len_smaller","no_comma","no_final_nul","len_nondigit","len_huge","len_negative","cl_negative","cl_bigger","cl_smaller","odd_fields","cl_over_limit","cl_huge","cl_nonnumeric"};
		static const char *fcgi_m[] = {"bad_version","unknown_type","bad_role","params_wrong_id","record_len_lie","pair_len_overflow","stdin_longer","stdin_shorter","get_values","get_values_then_request","abort_request","stdin_cut","stdin_cut","cl_huge","cl_nonnumeric","params_never_closed","stray_record_in_params","cl_negative","begin_short","stdin_before_params","cl_over_limit"};
		std::string op;
		if(x < 45) op = generic[r.below(15)];
		else if(proto == 0) op = http_m[r.below(16)]; else if(proto == 1) op = scgi_m[r.below(14)]; else op = fcgi_m[r.below(21)];
		m["op"] = op; m["pos"] = (long long)r.below(1000000); m["n"] = (int)(1 + r.below(8)); m["byte"] = (int)r.below(256); m["len"] = (int)r.below(3000);
		static const char *afters[] = {"close","halfclose","halfclose","wait","reset"}; m["after"] = afters[r.below(5)];
		if(r.below(12) == 0){ m["op"] = "complete_then_reset"; m["after"] = "reset"; }   // a complete, valid request whose peer resets the connection right behind its last byte
		return m;
	}
	static std::string find_replace_header(std::string w,const std::string &name,const std::string &newline){ size_t p = w.find("\r\n" + name + ":"); if(p == std::string::npos){ size_t e = w.find("\r\n\r\n"); if(e == std::string::npos) return w; return w.substr(0,e+2) + newline + w.substr(e+2); } size_t e = w.find("\r\n",p+2); return w.substr(0,p+2) + newline + w.substr(e+2); }
	static void apply_mutation(Exchange &e,const J &m,int proto){
		std::string op = m.gets("op"); std::string &w = e.wire; size_t pos = w.empty() ? 0 : (size_t)(m.geti("pos") % (int64_t)w.size()); int n = (int)std::max<int64_t>(1,std::min<int64_t>(m.geti("n",1),64)); char byte = (char)m.geti("byte"); size_t len = (size_t)std::max<int64_t>(0,std::min<int64_t>(m.geti("len"),70000));
		e.well_formed = false; e.mut = op; e.after = m.gets("after","halfclose"); if(e.after != "close" && e.after != "wait" && e.after != "reset") e.after = "halfclose";
		size_t hdr_end = proto == 0 ? w.find("\r\n\r\n") : std::string::npos;
		Req &q = e.req; bool http11 = e.http11;
		if(op == "truncate"){ w.resize(pos);
			if(proto == 0 && (hdr_end == std::string::npos || pos < hdr_end + 4) && pos > 0) e.must_not_serve = true;                              // EOF before the end of the header block
			else if(proto == 0 && q.has_body && pos < hdr_end + 4 + q.body.size()) e.must_not_serve = true;                                       // body shorter than declared
			if(e.after == "wait") e.after = "halfclose"; }
		else if(op == "flip"){ for(int i=0;i<n && !w.empty();i++){ size_t k = (pos + i*7919) % w.size(); w[k] ^= (char)(1 << (i % 8)); } }
		else if(op == "insert"){ w.insert(pos,std::string((size_t)n,byte)); }
		else if(op == "delete"){ w.erase(pos,std::min<size_t>(n,w.size()-pos)); }
		else if(op == "garbage"){ w = gen_bytes((uint64_t)m.geti("pos"),len,0); }
		else if(op == "dup_tail"){ w += w.substr(pos); }
		else if(op == "complete_then_reset"){ e.after = "reset"; }   // the bytes stay as they are
		else if(op == "fold_insert"){   // a line break followed by white space (what a folded header looks like) at an odd place: mostly 1..3 characters into some line of the request head
			std::vector<size_t> ls(1,0); for(size_t p = w.find("\r\n");p != std::string::npos && ls.size() < 200;p = w.find("\r\n",p+2)) ls.push_back(p+2);
			size_t at = ls[pos % ls.size()] + (n <= 5 ? (size_t)(n <= 3 ? 1 : n - 2) : (size_t)(len % 40)); if(at > w.size()) at = w.size(); w.insert(at,std::string("\r\n") + ((byte & 1) ? " " : "\t")); }
		else if(op == "mp_no_final_boundary" || op == "mp_bad_part_header" || op == "mp_no_name" || op == "mp_cut"){
			Req q2 = q; if(q2.script == "/f") q2.script = "/a";   // behind a raw content filter nothing parses the body: it would be served
			q2.method = "POST"; q2.has_body = true; q2.boundary = "XbndX"; q2.content_type = "multipart/form-data; boundary=XbndX"; q2.parts.clear(); Req::Part pt; pt.name = "f"; pt.has_filename = true; pt.filename = "a.bin"; pt.ctype = "text/plain"; pt.content = gen_bytes(5,len % 600,1); q2.parts.push_back(pt); pt.name = "g"; pt.ctype = ""; pt.has_filename = false; pt.content = "v"; q2.parts.push_back(pt);
			std::string b = multipart_body(q2);
			if(op == "mp_no_final_boundary") b = b.substr(0,b.size() - std::string("--XbndX--\r\n").size());
			else if(op == "mp_cut"){   // a body that ends (consistently with its declared length) before the closing delimiter: two times in three at a structural point - right after a delimiter or after the blank line of a part header
				size_t lim = b.size() - std::string("--XbndX--\r\n").size(); std::vector<size_t> st; for(size_t p = b.find("--XbndX");p != std::string::npos;p = b.find("--XbndX",p+1)) if(p + 7 <= lim) st.push_back(p + 7); for(size_t p = b.find("\r\n\r\n");p != std::string::npos;p = b.find("\r\n\r\n",p+1)) if(p + 4 <= lim) st.push_back(p + 4);
				uint64_t pp = (uint64_t)m.geti("pos"); size_t cut = (pp % 3) && !st.empty() ? st[(pp / 3) % st.size()] : 1 + (size_t)((pp / 3) % lim); b.resize(cut); }
			else if(op == "mp_bad_part_header"){ size_t h = b.find("Content-Disposition:"); b.replace(h,20,"Content-Disposition "); }
			else { size_t h = b.find("form-data;"); b.replace(h,9,"attachment"); }
			q2.body = b; q2.parts.clear(); q2.boundary.clear();
			if(proto == 0) w = http_encode(q2,http11,e.keepalive); else w = reencode(cgi_env(q2,proto,http11),b,proto,e);
			e.must_not_serve = true; }
		else if(op == "cl_negative"){ if(proto == 0) w = find_replace_header(w,"Content-Length","Content-Length: -" + std::to_string(1 + (len % 5000)) + "\r\n"); else { Req q2 = q; q2.has_body = true; q2.body = "x"; Pairs v = cgi_env(q2,proto,http11); for(auto &kv:v) if(kv.first == "CONTENT_LENGTH") kv.second = "-" + std::to_string(1 + len); e.wire = reencode(v,"x",proto,e); } }
		else if((op == "cl_huge" || op == "cl_nonnumeric") && proto != 0){ static const char *odd[] = {"18446744073709551616000","99999999999999999999","ten","-","12abc","0x10","+"}; Req q2 = q; q2.has_body = true; q2.body = "x"; Pairs v = cgi_env(q2,proto,http11); for(auto &kv:v) if(kv.first == "CONTENT_LENGTH") kv.second = op == "cl_huge" ? odd[len % 2] : odd[2 + len % 5]; e.wire = reencode(v,"x",proto,e); }   /* the gateway hands CONTENT_LENGTH on as text: whatever it is, nothing but this request may suffer */
		else if(op == "cl_huge"){ w = find_replace_header(w,"Content-Length","Content-Length: 99999999999999999999\r\n"); }
		else if(op == "cl_nonnumeric"){ w = find_replace_header(w,"Content-Length","Content-Length: 12abc\r\n"); }
		else if(op == "cl_duplicate"){ size_t h = w.find("\r\n\r\n"); if(h != std::string::npos) w.insert(h+2,"Content-Length: " + std::to_string(len) + "\r\n"); }
		else if(op == "cl_bigger" || op == "cl_smaller" || op == "cl_over_limit"){
			Req q2 = q; if(!q2.has_body){ q2.has_body = true; q2.method = "POST"; q2.content_type = "application/octet-stream"; q2.body = gen_bytes(7,20 + len % 200,1); }
			bool two_gig = op == "cl_over_limit" && m.geti("two_gig");   /* the limits admit it (2 GiB and more configured): an upload announced with 2^31 bytes or more, of which only the beginning ever arrives */
			if(two_gig){ q2.method = "POST"; q2.content_type = "multipart/form-data; boundary=zz2g"; q2.body = "--zz2g\r\nContent-Disposition: form-data; name=\"big\"; filename=\"big.bin\"\r\nContent-Type: application/octet-stream\r\n\r\n" + gen_bytes(9,20 + len % 300,1); q2.parts.clear(); q2.boundary.clear(); }
			size_t real = q2.body.size(); size_t decl = two_gig ? (size_t)2147483648ULL + (size_t)len * 1000003ULL : op == "cl_bigger" ? real + 1 + len % 50 : op == "cl_smaller" ? (real > 0 ? real - 1 - (len % real) % real : 0) : 5000000 + len;
			if(proto == 0){ std::string w2 = http_encode(q2,http11,e.keepalive); w = find_replace_header(w2,"Content-Length","Content-Length: " + std::to_string(decl) + "\r\n"); }
			else { Pairs v = cgi_env(q2,proto,http11); for(auto &kv:v) if(kv.first == "CONTENT_LENGTH") kv.second = std::to_string(decl); w = reencode(v,q2.body,proto,e); }
			if(op == "cl_bigger"){ e.must_not_serve = true; if(e.after == "wait" && proto != 0) e.after = "halfclose"; }      // body shorter than declared
			if(op == "cl_over_limit"){ e.must_not_serve = true; e.expect_413 = !two_gig; if(two_gig && e.after == "wait" && proto != 0) e.after = "halfclose"; } }
		else if(op == "header_16k"){ size_t h = w.find("\r\n");
			if(h != std::string::npos){
				if(n % 2){ w.insert(h+2,"X-Big: " + std::string(17000 + len,'a') + "\r\n"); }                         // oversized but terminated: cppcms may serve it, nothing is demanded
				else { w = w.substr(0,h+2) + "X-Big: " + std::string(40000 + len,'a'); e.must_not_serve = true; } } } // header block that never ends
		else if(op == "bare_lf"){ for(size_t i=0;i+1<w.size() && (hdr_end == std::string::npos || i < hdr_end + 4);i++) if(w[i] == '\r' && w[i+1] == '\n'){ w.erase(i,1); if(hdr_end != std::string::npos) hdr_end--; } }
		else if(op == "nul_in_header"){ size_t h = w.find("\r\n"); if(h != std::string::npos) w.insert(h+2,std::string("X-Nul: a\0b\r\n",12)); }
		else if(op == "no_version"){ size_t h = w.find(" HTTP/1."); size_t eol = w.find("\r\n"); if(h != std::string::npos && eol != std::string::npos) w.erase(h,eol-h); }
		else if(op == "odd_cookie"){   // Cookie headers at the edge of (and beyond) the grammar: empty values followed by blanks, missing names, separators in odd places, unterminated quotes
			static const char *cookies[] = {"theme= ; sid=42","a= ","a=;b","=v","a",";;","a=\"unterminated","a=1,b=2","$Version=1; a=b; $Path=/","a =b","a= b ;c = d"," ; ","a=\"q\\\"q\" ; b=","a==;=;","a=\t; b=\t\t,c= ,"};
			Req q2 = q; q2.cookies.clear(); q2.cookie_quoted.clear(); q2.headers.push_back({"Cookie",cookies[(size_t)(m.geti("pos") % 15)]}); q2.fold.push_back(0);
			if(proto == 0) w = http_encode(q2,http11,e.keepalive); else w = reencode(cgi_env(q2,proto,http11),q2.body,proto,e); }
		else if(op == "odd_target"){   // request targets other than the origin form (RFC 7230 5.3): absolute form with and without a path, authority form, asterisk form, empty, no leading slash, blanks
			static const char *targets[] = {"http://example.com","http://example.com/","http://example.com?x=1","http://","http:","http://example.com/s/echo?a=b","https://h:443","example.com:80","*","","s/echo","//","/s/echo /x","?","#","http://[::1","\t/s/echo"};
			size_t sp = w.find(' '); size_t sp2 = sp == std::string::npos ? sp : w.find(' ',sp+1); size_t eol = w.find("\r\n"); if(sp != std::string::npos && sp2 != std::string::npos && eol != std::string::npos && sp2 < eol) w.replace(sp+1,sp2-sp-1,targets[(size_t)(m.geti("pos") % 17)]); }
		else if(op == "bad_uri"){ size_t sp = w.find(' '); if(sp != std::string::npos && sp+1 < w.size()) w[sp+1] = '*'; }
		else if(op == "no_colon"){ size_t h = w.find("\r\n"); if(h != std::string::npos) w.insert(h+2,"this header has no colon\r\n"); }
		else if(op == "header_spaces"){ size_t h = w.find("\r\n"); if(h != std::string::npos) w.insert(h+2," \t leading-space-first-header: x\r\n"); }
		else if(proto == 1){
			size_t colon = w.find(':'); size_t hl = colon == std::string::npos ? 0 : strtoul(w.c_str(),nullptr,10); std::string rest = colon == std::string::npos ? w : w.substr(colon+1);
			if(op == "len_bigger"){ w = std::to_string(hl + 1 + len % 100) + ":" + rest; e.must_not_serve = hl + 1 + len % 100 + 1 > rest.size(); }
			else if(op == "len_smaller"){ w = std::to_string(hl > 0 ? hl - 1 - (len % hl) % hl : 0) + ":" + rest; }
			else if(op == "no_comma"){ if(hl < rest.size()) rest[hl] = 'X'; w = std::to_string(hl) + ":" + rest; e.must_not_serve = true; }
			else if(op == "no_final_nul"){ // the last value lacks its terminating NUL: the header block ends in the middle of a string
				std::string hb = rest.substr(0,hl); if(!hb.empty()) hb[hb.size()-1] = 'z'; w = std::to_string(hl) + ":" + hb + rest.substr(std::min(hl,rest.size())); }
			else if(op == "len_nondigit"){ w = "1x3:" + rest; }
			else if(op == "len_huge"){ w = "99999999999:" + rest; e.must_not_serve = true; }
			else if(op == "len_negative"){ w = "-5:" + rest; e.must_not_serve = true; }
			else if(op == "odd_fields"){ std::string hb = rest.substr(0,hl) + std::string("ODD_NAME_WITHOUT_VALUE\0",23); w = std::to_string(hb.size()) + ":" + hb + rest.substr(std::min(hl,rest.size())); } }
		else if(proto == 2){
			Pairs v = cgi_env(q,2,http11); std::string body = q.has_body ? q.body : ""; int id = e.fl.request_id; std::string o; std::string b(8,'\0'); b[1] = 1; b[2] = e.fl.keep_conn ? 1 : 0;
			auto begin = [&](std::string &out){ fcgi_record(out,1,id,b,0); };
			auto params = [&](std::string &out){ fcgi_record(out,4,id,fcgi_pairs(v),n % 8); fcgi_record(out,4,id,"",0); };
			auto stdin_ = [&](std::string &out,const std::string &d){ if(!d.empty()) fcgi_record(out,5,id,d,0); fcgi_record(out,5,id,"",0); };
			if(op == "bad_version"){ w[0] = (char)(2 + n); e.must_not_serve = true; }
			else if(op == "unknown_type"){ fcgi_record(o,11 + n,id,"whatever",3); begin(o); params(o); stdin_(o,body); w = o; }
			else if(op == "bad_role"){ b[1] = (char)(2 + n % 2); begin(o); params(o); stdin_(o,body); w = o; e.must_not_serve = true; }
			else if(op == "params_wrong_id"){ begin(o); fcgi_record(o,4,id == 1 ? 2 : id - 1,fcgi_pairs(v),0); fcgi_record(o,4,id,"",0); stdin_(o,body); w = o; }
			else if(op == "record_len_lie"){ begin(o); std::string pr = fcgi_pairs(v); fcgi_record(o,4,id,pr,0); size_t hp = 8 + 8 + 0; o[hp+4] = (char)0xff; o[hp+5] = (char)0xff; fcgi_record(o,4,id,"",0); stdin_(o,body); w = o; }
			else if(op == "pair_len_overflow"){ begin(o); std::string pr; pr += (char)0xff; pr += (char)0xff; pr += (char)0xff; pr += (char)0xff; pr += (char)5; pr += "NAMEvalue"; pr += fcgi_pairs(v); fcgi_record(o,4,id,pr,0); fcgi_record(o,4,id,"",0); stdin_(o,body); w = o; }
			else if(op == "stdin_longer"){ begin(o); params(o); stdin_(o,body + std::string(1 + len % 100,'L')); w = o; }
			else if(op == "stdin_cut"){ /* the body arrives in several STDIN records and the stream ends (close, half-close, reset) after some of them: fewer bytes than CONTENT_LENGTH announced, no closing record */
				Req q2 = q; if(!q2.has_body || q2.body.size() < 4){ q2.has_body = true; q2.body = gen_bytes(11,40 + len % 4000,1); q2.method = "POST"; q2.content_type = "application/octet-stream"; q2.parts.clear(); q2.boundary.clear(); } v = cgi_env(q2,2,http11); begin(o); params(o);
				size_t rec = 1 + len % 97, upto = 1 + (len * 7) % (q2.body.size() - 1); for(size_t off=0;off<upto;off+=rec) fcgi_record(o,5,id,q2.body.substr(off,std::min(rec,upto - off)),(int)(off % 3)); w = o; e.must_not_serve = true; if(e.after == "wait") e.after = "halfclose"; }
			else if(op == "stdin_shorter"){ Req q2 = q; if(!q2.has_body || q2.body.empty()){ q2.has_body = true; q2.body = "0123456789"; q2.method = "POST"; q2.content_type = "text/plain"; } v = cgi_env(q2,2,http11); begin(o); params(o); stdin_(o,q2.body.substr(0,q2.body.size()-1 - (len % q2.body.size()) % q2.body.size())); w = o; e.must_not_serve = true; }
			else if(op == "get_values"){ Pairs gv; gv.push_back({"FCGI_MAX_CONNS",""}); gv.push_back({"FCGI_MPXS_CONNS",""}); fcgi_record(o,9,0,fcgi_pairs(gv),0); w = o; }
			else if(op == "get_values_then_request"){ Pairs gv; gv.push_back({"FCGI_MAX_REQS",""}); fcgi_record(o,9,0,fcgi_pairs(gv),0); begin(o); params(o); stdin_(o,body); w = o; }
			else if(op == "abort_request"){ begin(o); fcgi_record(o,2,id,"",0); params(o); stdin_(o,body); w = o; }
			else if(op == "params_never_closed"){ begin(o); fcgi_record(o,4,id,fcgi_pairs(v),0); w = o; e.must_not_serve = true; if(e.after == "wait") e.after = "halfclose"; }
			else if(op == "stray_record_in_params"){ begin(o); fcgi_record(o,4,id,fcgi_pairs(v).substr(0,10),0); fcgi_record(o,5,id,"stray",0); fcgi_record(o,4,id,fcgi_pairs(v).substr(10),0); fcgi_record(o,4,id,"",0); stdin_(o,body); w = o; }
			else if(op == "begin_short"){ fcgi_record(o,1,id,"abc",0); params(o); stdin_(o,body); w = o; e.must_not_serve = true; }
			else if(op == "stdin_before_params"){ begin(o); stdin_(o,body); params(o); w = o; } }
		else { w.resize(pos); if(e.after == "wait") e.after = "halfclose"; }
	}
	// encode an explicit CGI variable list for SCGI / FastCGI
	static std::string reencode(const Pairs &v,const std::string &body,int proto,Exchange &e){
		if(proto == 1){ std::string h; for(auto &kv:v){ h += kv.first; h += '\0'; h += kv.second; h += '\0'; } return std::to_string(h.size()) + ":" + h + "," + body; }
		std::string out; std::string b(8,'\0'); b[1] = 1; b[2] = e.fl.keep_conn ? 1 : 0; fcgi_record(out,1,e.fl.request_id,b,0); fcgi_record(out,4,e.fl.request_id,fcgi_pairs(v),0); fcgi_record(out,4,e.fl.request_id,"",0); if(!body.empty()) fcgi_record(out,5,e.fl.request_id,body,0); fcgi_record(out,5,e.fl.request_id,"",0); return out;
	}

	// ---- build the wire image of one exchange
	static void build_exchange(const J &je,const J &jc,Exchange &e,int proto){
		e.tag = je.gets("tag","r?"); e.http11 = jc.geti("http11"); e.keepalive = jc.geti("keepalive"); bool async_mount = jc.geti("async");
		const J &fl = je.get("fcgi"); for(size_t i=0;i<fl.get("params_chunks").size();i++) e.fl.params_chunks.push_back((int)fl.get("params_chunks").a[i].as_int()); for(size_t i=0;i<fl.get("stdin_chunks").size();i++) e.fl.stdin_chunks.push_back((int)fl.get("stdin_chunks").a[i].as_int());
		for(size_t i=0;i<fl.get("paddings").size();i++) e.fl.paddings.push_back((int)fl.get("paddings").a[i].as_int()); e.fl.request_id = (int)std::max<int64_t>(1,std::min<int64_t>(fl.geti("request_id",1),65535)); e.fl.keep_conn = e.keepalive;
		const J &sg = je.get("seg"); for(size_t i=0;i<sg.size();i++) e.seg.push_back((int)sg.a[i].as_int());
		{ const J &dl = je.get("seg_delay_ms"); for(size_t i=0;i<dl.size() && i<64;i++) e.seg_delay_ms.push_back((int)std::max<int64_t>(0,dl.a[i].as_int())); }   // capped at 0.45 x http.timeout by the caller
		if(je.gets("kind") == "writer"){
			e.is_writer = true; e.script = je.gets("script"); e.salt = (uint64_t)je.geti("salt"); e.accept_gzip = je.geti("gzip"); e.abort_after = je.has("abort_after") ? (int)std::max<int64_t>(0,je.geti("abort_after")) : -1;
			Req r; r.method = "GET"; r.script = async_mount ? "/a" : "/s"; r.path = "/writer"; r.has_query = true; r.query = "s=" + e.script + "&salt=" + std::to_string(e.salt); if(!je.gets("cache").empty()) r.query += "&cache=" + je.gets("cache");
			if(e.accept_gzip) r.headers.push_back({"Accept-Encoding","gzip"}); e.req = r;
		} else e.req = req_from(je.get("req"));
		e.req.headers.push_back({"X-Req-Id",e.tag});
		if(proto == 0) e.wire = http_encode(e.req,e.http11,e.keepalive); else if(proto == 1) e.wire = scgi_encode(e.req,e.http11); else e.wire = fcgi_encode(e.req,e.http11,e.fl);
		if(je.get("mut").is_obj()) apply_mutation(e,je.get("mut"),proto);
	}

	static std::string first_diff(const std::string &a,const std::string &b){ size_t i = 0; while(i < a.size() && i < b.size() && a[i] == b[i]) i++; size_t ls = a.rfind('\n',i ? i-1 : 0); ls = ls == std::string::npos ? 0 : ls + 1; size_t ea = a.find('\n',i), eb = b.find('\n',i);
		return "got line: " + a.substr(ls,(ea == std::string::npos ? a.size() : ea) - ls).substr(0,300) + " | expected line: " + b.substr(ls < b.size() ? ls : b.size(),(eb == std::string::npos ? b.size() : eb) - std::min(ls,b.size())).substr(0,300); }

	RunResult run(const J &plan) override {
		RunResult res; AppWorld aw; AW = &aw; bool clock_was_stepped = false;
		std::string prop = plan.gets("prop","C01");
		/* C03 plans only (all their exchanges are writer scripts): the application has installed a process-wide locale that groups digits; the numbers cppcms puts on the wire (Content-Length, chunk sizes, Max-Age) must not change with it */
		struct Grouping : std::numpunct<char> { char do_thousands_sep() const override { return ','; } std::string do_grouping() const override { return "\3"; } };
		struct LocaleGuard { bool on; LocaleGuard(bool o) : on(o) { if(on) std::locale::global(std::locale(std::locale::classic(),new Grouping)); } ~LocaleGuard(){ if(on) std::locale::global(std::locale::classic()); } } locale_guard(prop == "C03" && plan.get("cfg").geti("grouping_locale") != 0);
		if(locale_guard.on) res.counters["runs_under_digit_grouping_locale"] = 1;
		simk::Params sp; sp.sched_seed = (uint64_t)plan.geti("sched_seed",1); sp.fault_seed = (uint64_t)plan.geti("fault_seed",1); sp.strategy = (int)(((plan.geti("strategy") % 3) + 3) % 3);
		sp.pct_depth = (int)std::max<int64_t>(1,std::min<int64_t>(plan.geti("pct_depth",2),8)); sp.pct_len = (int)std::max<int64_t>(1,plan.geti("pct_len",500)); sp.tick_us = (int)std::max<int64_t>(1,std::min<int64_t>(plan.geti("tick_us",1),10000));
		sp.p_short_read = (unsigned)std::max<int64_t>(0,std::min<int64_t>(plan.geti("p_short_read"),1000)); sp.p_short_write = (unsigned)std::max<int64_t>(0,std::min<int64_t>(plan.geti("p_short_write"),1000));
		{ const J &af = plan.get("accept_fail_at"); for(size_t k=0;k<af.size() && k<6;k++) sp.accept_fail_at.push_back((uint32_t)std::max<int64_t>(0,std::min<int64_t>(af.a[k].as_int(),1000))); }
		sp.p_eintr = (unsigned)std::max<int64_t>(0,std::min<int64_t>(plan.geti("p_eintr"),200)); sp.p_spurious = (unsigned)std::max<int64_t>(0,std::min<int64_t>(plan.geti("p_spurious"),300));
		sp.stdio_track = "/cppcms_uploads_"; if(plan.has("disk_fail_at")){ const J &fa = plan.get("disk_fail_at"); for(size_t i=0;i<fa.size() && i<8;i++) sp.stdio_fail_at.push_back((uint32_t)std::max<int64_t>(0,std::min<int64_t>(fa.a[i].as_int(),100000))); sp.stdio_sticky = plan.geti("disk_sticky") != 0; }
		sp.max_steps = 6000000; sp.text_trace = plan.geti("text_trace");
		// a reader that takes a few bytes per step needs steps in proportion to what it has to read: the limit exists to catch runs that make no progress, not long ones
		{ uint64_t extra = 0; const J &pc = plan.get("conns"); for(size_t ci=0;ci<pc.size() && ci<16;ci++){ const J &jc = pc.a[ci]; const J &rp = jc.get("read_pace"); int64_t pace = 1 << 20; for(size_t i=0;i<rp.size();i++) if(rp.a[i].as_int() > 0) pace = std::min<int64_t>(pace,rp.a[i].as_int()); pace = std::min<int64_t>(pace,std::max<int64_t>(1,jc.geti("cap_to_client",4096)));
			const J &ex = jc.get("ex"); for(size_t k=0;k<ex.size() && k<16;k++) if(ex.a[k].gets("kind") == "writer") extra += (uint64_t)script_body(normalise_script(ex.a[k].gets("script")),0).size() / (uint64_t)pace;
				else { const J &pts = ex.a[k].get("req").get("parts"); uint64_t fields = 0; for(size_t q=0;q<pts.size() && q<64;q++) if(!pts.a[q].has("ctype")) fields += (uint64_t)std::max<int64_t>(0,std::min<int64_t>(pts.a[q].geti("len"),1<<20)); extra += fields / (uint64_t)pace; } }   /* form fields are echoed in full */
		  sp.max_steps += std::min<uint64_t>(extra,1000000) * 80; }
		simk::begin(sp);
		const J &cfg = plan.get("cfg");
		int rt = (int)(((cfg.geti("reactor") % 3) + 3) % 3);
		std::vector<std::unique_ptr<Client>> clients; int n_pipelined = 0;
		std::string run_exception; int conn_leak = 0; std::string upload_dir;
		size_t content_limit_cfg = (size_t)std::max<int64_t>(1,std::min<int64_t>(plan.get("cfg").geti("content_limit_kb",2048),4096)) * 1024, multipart_limit_cfg = (size_t)std::max<int64_t>(1,std::min<int64_t>(plan.get("cfg").geti("multipart_limit_kb",2048),4096)) * 1024;
		int64_t huge_kb = std::max<int64_t>(0,std::min<int64_t>(plan.get("cfg").geti("huge_limits_kb"),1LL << 30)); if(huge_kb >= 2097152){ content_limit_cfg = multipart_limit_cfg = (size_t)huge_kb * 1024; } else huge_kb = 0;
		{
			cppcms::json::value v;
			v["service"]["list"][0]["api"] = "http"; v["service"]["list"][0]["ip"] = "127.0.0.1"; v["service"]["list"][0]["port"] = 8080;
			v["service"]["list"][1]["api"] = "scgi"; v["service"]["list"][1]["ip"] = "127.0.0.1"; v["service"]["list"][1]["port"] = 8081;
			v["service"]["list"][2]["api"] = "fastcgi"; v["service"]["list"][2]["ip"] = "127.0.0.1"; v["service"]["list"][2]["port"] = 8082;
			v["service"]["worker_threads"] = (int)std::max<int64_t>(1,std::min<int64_t>(cfg.geti("worker_threads",2),6)); v["service"]["disable_global_exit_handling"] = true;
			v["service"]["reactor"] = rt == 0 ? "epoll" : rt == 1 ? "poll" : "select";
			v["service"]["output_buffer_size"] = (int)std::max<int64_t>(0,std::min<int64_t>(cfg.geti("output_buffer_size",16384),1<<20)); v["service"]["async_output_buffer_size"] = (int)std::max<int64_t>(0,std::min<int64_t>(cfg.geti("async_output_buffer_size",1024),1<<20)); v["service"]["input_buffer_size"] = (int)std::max<int64_t>(1,std::min<int64_t>(cfg.geti("input_buffer_size",65536),1<<20));
			v["http"]["script_names"][0] = "/s"; v["http"]["script_names"][1] = "/a"; v["http"]["script_names"][2] = "/f"; v["http"]["timeout"] = (int)std::max<int64_t>(2,std::min<int64_t>(cfg.geti("http_timeout",30),120));
			v["gzip"]["enable"] = (bool)cfg.geti("gzip"); if(cfg.geti("gzip_level",-1) >= 0) v["gzip"]["level"] = (int)std::min<int64_t>(cfg.geti("gzip_level"),9); if(cfg.geti("gzip_buffer") > 0) v["gzip"]["buffer"] = (int)cfg.geti("gzip_buffer");
			v["cache"]["backend"] = "thread_shared"; v["cache"]["limit"] = 16;
			v["localization"]["locales"][0] = "C"; v["localization"]["backend"] = "std"; v["logging"]["stderr"] = false; v["logging"]["level"] = "error";
			if(cfg.geti("proxy_behind")) v["http"]["proxy"]["behind"] = true;
			if(cfg.geti("syslog")){ v["logging"]["syslog"]["enable"] = true; v["logging"]["syslog"]["id"] = "verif"; v["logging"]["level"] = cfg.geti("syslog") == 2 ? "info" : "error"; }   // the syslog sink formats every record (at level info: one per HTTP request, carrying the peer's request line); there is no /dev/log here, the datagram goes nowhere
			v["security"]["content_length_limit"] = 2048; v["security"]["multipart_form_data_limit"] = 2048; v["security"]["display_error_message"] = false;
			{ char pb[16]; snprintf(pb,sizeof(pb),"%07d",(int)getpid()); upload_dir = runner::g_scratch + "/up" + pb; }   /* fixed length, see runner.h */ mkdir(upload_dir.c_str(),0700);
			v["security"]["uploads_path"] = upload_dir; aw.save_dir = upload_dir + ".saved"; mkdir(aw.save_dir.c_str(),0700);
			v["security"]["content_length_limit"] = (int)std::max<int64_t>(1,std::min<int64_t>(cfg.geti("content_limit_kb",2048),4096)); v["security"]["multipart_form_data_limit"] = (int)std::max<int64_t>(1,std::min<int64_t>(cfg.geti("multipart_limit_kb",2048),4096)); v["security"]["file_in_memory_limit"] = (int)std::max<int64_t>(0,std::min<int64_t>(cfg.geti("file_in_memory_limit",128*1024),1<<22));
			if(huge_kb){ v["security"]["content_length_limit"] = (int)huge_kb; v["security"]["multipart_form_data_limit"] = (int)huge_kb; }
			v["forwarding"]["rules"][0]["host"] = "fwd\\.example"; v["forwarding"]["rules"][0]["ip"] = "127.0.0.1"; v["forwarding"]["rules"][0]["port"] = 8090;
			// the back-end of the forwarding rule: a second service in this process, SCGI only, same applications, no rules of its own
			cppcms::json::value v2 = v; { cppcms::json::value none; v2["forwarding"] = none; v2["service"]["list"] = none; v2["service"]["api"] = "scgi"; v2["service"]["ip"] = "127.0.0.1"; v2["service"]["port"] = 8090; v2["service"]["worker_threads"] = 1; }
			std::unique_ptr<cppcms::service> srv, srv2; booster::intrusive_ptr<cppcms::application> legacy_async_app;   /* legacy mount of a ready-made asynchronous application: the caller's reference keeps it alive (as in the examples: the pointer lives next to service::run()) */
			try {
				srv2.reset(new cppcms::service(v2));
				srv2->applications_pool().mount(cppcms::create_pool<TestApp>(),cppcms::mount_point("/s"),cppcms::app::synchronous);
				srv2->applications_pool().mount(cppcms::create_pool<TestApp>(),cppcms::mount_point("/a"),cppcms::app::asynchronous);
				srv.reset(new cppcms::service(v));
				srv->applications_pool().mount(cppcms::create_pool<HostApp>(),cppcms::mount_point(cppcms::mount_point::match_path_info,booster::regex("internal\\.example(:\\d+)?"),booster::regex("/s"),booster::regex(),0),cppcms::app::synchronous);
				/* the ways an application can be attached: pooled objects (default), one object per worker thread, objects made ahead of the first request, and the two legacy forms (a factory; one ready-made asynchronous object) */
				int ms = (int)(((cfg.geti("mount_style") % 4) + 4) % 4); res.counters[ms == 0 ? "mount_pooled" : ms == 1 ? "mount_thread_specific" : ms == 2 ? "mount_prepopulated" : "mount_legacy"] = 1;
				if(ms == 3){ srv->applications_pool().mount(cppcms::applications_factory<TestApp>(),cppcms::mount_point("/s")); legacy_async_app = new TestApp(*srv); srv->applications_pool().mount(legacy_async_app,cppcms::mount_point("/a")); }
				else { srv->applications_pool().mount(cppcms::create_pool<TestApp>(),cppcms::mount_point("/s"),cppcms::app::synchronous | (ms == 1 ? cppcms::app::thread_specific : ms == 2 ? cppcms::app::prepopulated : 0));
					srv->applications_pool().mount(cppcms::create_pool<TestApp>(),cppcms::mount_point("/a"),cppcms::app::asynchronous | (ms == 2 ? cppcms::app::prepopulated : 0)); }
				srv->applications_pool().mount(cppcms::create_pool<FilterApp>(),cppcms::mount_point("/f"),cppcms::app::asynchronous | cppcms::app::content_filter);
			} catch(std::exception const &e){ res.fail("setup-failed",e.what()); }
			if(res.ok){
				const J &conns = plan.get("conns");
				for(size_t ci=0;ci<conns.size() && ci<8;ci++){ const J &jc = conns.a[ci]; auto cl = std::unique_ptr<Client>(new Client); cl->proto = (int)(((jc.geti("proto") % 3) + 3) % 3); cl->addr = cl->proto == 0 ? "tcp:8080" : cl->proto == 1 ? "tcp:8081" : "tcp:8082";
					cl->cap_to_server = (size_t)std::max<int64_t>(1,std::min<int64_t>(jc.geti("cap_to_server",4096),1<<20)); cl->cap_to_client = (size_t)std::max<int64_t>(1,std::min<int64_t>(jc.geti("cap_to_client",4096),1<<20));
					const J &rp = jc.get("read_pace"); for(size_t i=0;i<rp.size();i++) cl->read_pace.push_back((int)rp.a[i].as_int()); cl->read_delay_ms = (!jc.geti("async") || plan.get("conns").size() != 1) ? 0 : (int)std::max<int64_t>(0,std::min<int64_t>(jc.geti("read_delay_ms"),std::max<int64_t>(1,cfg.geti("http_timeout",10))*450)); cl->start_delay_us = (int64_t)std::max<int64_t>(0,std::min<int64_t>(jc.geti("start_delay_us"),100000000)); cl->t_created = simk::now_us(); cl->rng.seed(sp.fault_seed + ci);
					const J &exs = jc.get("ex"); for(size_t i=0;i<exs.size() && i<6;i++){ cl->ex.emplace_back(); build_exchange(exs.a[i],jc,cl->ex.back(),cl->proto); for(auto &d:cl->ex.back().seg_delay_ms) d = (int)std::min<int64_t>(d,std::max<int64_t>(1,cfg.geti("http_timeout",10))*450); }
					// HTTP/1.1 pipelining: the next request is sent right behind the previous one, before its response has been read
					if(jc.geti("pipeline") && cl->proto == 0 && jc.geti("http11") && jc.geti("keepalive")){
						for(size_t i=cl->ex.size();i-- > 1;){ Exchange &a = cl->ex[i-1], &b2 = cl->ex[i]; auto plain = [](const Exchange &x){ return x.well_formed && x.close_after < 0 && x.halfclose_after < 0 && x.reset_after < 0 && x.abort_after < 0 && !x.stall && x.seg_delay_ms.empty(); };
							if(plain(a) && plain(b2)){ a.wire += b2.wire; b2.pre_sent = true; n_pipelined++; } } }
					cl->bad_wait_us = (v.get<int>("http.timeout") + 6) * 1000000LL;
					for(auto &e:cl->ex) if(!e.well_formed && cl->proto != 0 && e.after == "wait") e.after = "halfclose";
					if(cl->ex.empty()) continue;
					simk::add_actor(cl.get()); clients.push_back(std::move(cl)); }
				/* the wall clock is set back while requests are in flight (ntpd step, date -s, VM resume): time() and gettimeofday() of the service jump back by a few seconds once; a time-out may come later for it, never earlier */
				struct ClockStepper : simk::Actor { int64_t at = -1, by = 0; bool fired = false; bool in_pause = false; std::vector<std::unique_ptr<Client>> *cls = nullptr;
					bool paused_mid_request(){ if(!cls) return false; for(auto &c:*cls) if(c->connected && !c->finished && c->sent > 0 && c->hold_until > simk::now_us() + 1500000) return true; return false; }   /* a peer has sent a part of its request and will be silent for a while: the request is in flight */
					bool enabled() override { if(fired || at < 0) return false; return in_pause ? (paused_mid_request() || (late && others_done())) : simk::now_us() >= at; } int64_t next_time() override { return fired || at < 0 || in_pause ? -1 : at; } Client *late = nullptr;   /* a peer that connects right after the step (the acceptor looks at the connection table whenever it accepts) */
					bool others_done(){ if(!cls) return true; for(auto &c:*cls) if(c.get() != late && !c->finished) return false; return true; }
					void release_late(){ if(late && !late->connected){ late->start_delay_us = simk::now_us() - late->t_created + 200000; } }
					void step() override { fired = true; if(in_pause && !paused_mid_request()){ release_late(); return; }   /* nobody ever paused: no step, let the late peer in */ simk::set_node_skew_us(0,by); stepped = true; if(flag) *flag = true; release_late(); simk::tracef("fault: wall clock stepped by %lld us",(long long)by); } bool stepped = false; bool *flag = nullptr; const char *name() override { return "clock-stepper"; } } clock_stepper;
				if(plan.get("clock_step").is_obj()){ clock_stepper.at = simk::now_us() + 1000 * std::max<int64_t>(0,std::min<int64_t>(plan.get("clock_step").geti("at_ms"),600000)); clock_stepper.by = -1000000 * std::max<int64_t>(1,std::min<int64_t>(plan.get("clock_step").geti("back_s"),30)); clock_stepper.in_pause = plan.get("clock_step").geti("in_pause") != 0; clock_stepper.cls = &clients; clock_stepper.flag = &clock_was_stepped; if(clock_stepper.in_pause && clients.size() >= 2){ clock_stepper.late = clients.back().get(); clock_stepper.late->start_delay_us = 7200LL*1000000; } simk::add_actor(&clock_stepper); res.counters["clock_steps_back"] = 1; }
				cppcms::service *sv = srv.get(); std::vector<std::unique_ptr<Client>> *cls = &clients;
				if(clients.empty()){ simk::clear_actors(); legacy_async_app = 0; srv.reset(); simk::end(); AW = nullptr; return res; }   // nothing to serve (only reachable by shrinking): shutdown() before run() has set up its notification socket is outside the properties
				int64_t settle_us = (v.get<int>("http.timeout") + 4) * 1000000LL; int *leakp = &conn_leak;
				bool loop_running = false; bool *lrp = &loop_running;
				sv->post([lrp]{ *lrp = true; });      // runs once service::run() has finished its set-up and entered the event loop
				std::thread stopper([sv,cls,settle_us,leakp,lrp]{ simk::block([lrp]{ return *lrp; },-1,"wait-loop"); simk::block([cls]{ for(auto &c:*cls) if(!c->finished) return false; return true; },-1,"wait-clients");
					// every peer is gone: all server side connections must be released once the longest time-out has passed
					simk::block([]{ return simk::open_accepted_fds() == 0; },simk::now_us() + settle_us,"settle"); *leakp = simk::open_accepted_fds(); sv->shutdown(); });
				std::string run2_exception; bool loop2_running = false; bool *lr2 = &loop2_running; cppcms::service *sv2 = srv2.get(); sv2->post([lr2]{ *lr2 = true; });
				std::thread backend([sv2,&run2_exception]{ try { sv2->run(); } catch(std::exception const &e){ run2_exception = std::string("exception left the back-end's service::run(): ") + e.what(); } catch(...){ run2_exception = "unknown exception left the back-end's service::run()"; } });
				try { srv->run(); } catch(std::exception const &e){ run_exception = std::string("exception left service::run(): ") + e.what(); } catch(...){ run_exception = "unknown exception left service::run()"; }
				simk::block([lr2,&run2_exception]{ return *lr2 || !run2_exception.empty(); },-1,"wait-backend-loop"); if(run2_exception.empty()) sv2->shutdown(); backend.join(); if(run_exception.empty()) run_exception = run2_exception;
				if(!run_exception.empty()){ // the stopper may still wait for clients that nobody serves any more
					for(auto &c:clients) c->finished = true; }
				stopper.join();
			}
			simk::clear_actors();
			try { legacy_async_app = 0; srv.reset(); srv2.reset(); } catch(std::exception const &e){ res.fail("exception-in-destructor",e.what()); }
		}
		if(!run_exception.empty()) res.fail("exception-escaped",run_exception);
		res.hash = simk::trace_hash();
		simk::Stats st = simk::stats();
		int leaked = simk::open_sim_fds(); long long sim_s = (long long)((simk::now_us() - sp.start_time_s*1000000LL)/1000000);
		simk::end();
		AW = nullptr;
		// ------------------------------------------------------------ oracles
		std::map<std::string,std::string> cache_pages;
		int n_raw = 0, n_aborted = 0; int n_thrown = 0, n_abort_answers = 0; int n_proxy_addr = 0; bool proxy_behind = cfg.geti("proxy_behind") != 0; int n_disk_refused = 0; int n_on_error = 0; int n_filtered = 0, n_filter_reads = 0, n_host_app = 0, n_xlimit = 0, n_forwarded = 0; int n_over_limit = 0; int n_gzip_empty = 0; int n_bad = 0, n_bad_refused = 0; int n_cache_hits = 0; int n_ex = 0, n_multi_seg = 0, n_body = 0, n_keepalive_followups = 0, n_writer = 0, n_gzip = 0, n_chunked = 0;
		for(auto &cl:clients){ int port = 8080; bool conn_had_error = false; bool aborted_conn = false;
			for(size_t i=0;i<cl->ex.size() && res.ok;i++){ Exchange &e = cl->ex[i]; n_ex++; if(e.seg.size() > 1) n_multi_seg++; if(e.req.has_body && !e.req.body.empty()) n_body++; if(i > 0 && !e.conn_closed_early) n_keepalive_followups++;
				std::string who = std::string(cl->proto == 0 ? "http" : cl->proto == 1 ? "scgi" : "fastcgi") + " " + e.req.script + " request " + e.tag;
				if(cl->refused){ res.fail("connection-refused",who + ": nobody listens"); break; }
				if(e.aborted || (i > 0 && cl->ex[i-1].aborted) || (e.conn_closed_early && aborted_conn)){ aborted_conn = true; n_aborted++; int ent0 = aw.entered.count(e.tag) ? aw.entered[e.tag] : 0; if(ent0 > 1){ res.fail("handler-entered-twice",who + ": main() entered " + std::to_string(ent0) + " times"); break; } continue; }
				if(!e.well_formed){ n_bad++; who += " (malformed: " + e.mut + ", then " + e.after + ")";
					int ent = aw.entered.count(e.tag) ? aw.entered[e.tag] : 0;
					if(ent > 1 && e.mut != "dup_tail"){ res.fail("handler-entered-twice",who + ": main() entered " + std::to_string(ent) + " times"); break; }
					if(e.hang){ res.fail("malformed-connection-not-terminated",who + ": after the peer " + (e.after == "halfclose" ? "half-closed" : "stopped sending") + " the server neither answered nor closed the connection within " + std::to_string(cl->bad_wait_us/1000000) + " simulated seconds"); break; }
					if(e.must_not_serve){
						if(ent > 0){ res.fail("malformed-request-served",who + ": a request that cannot be served reached the application"); break; }
						if(e.resp.complete && e.resp.framing_error.empty() && e.resp.status > 0 && e.resp.status < 400){ res.fail("malformed-request-served",who + ": answered with status " + std::to_string(e.resp.status)); break; }
						n_bad_refused++; }
					bool hdr_abort = e.req.script == "/f" && e.req.path == "/aborthdr" && e.resp.status == 401;   /* the application refused the upload at the header stage, before any limit is looked at (it may still set the limits there): its code is the answer */
					if(e.expect_413 && !hdr_abort && e.resp.complete && e.resp.framing_error.empty() && e.resp.status != 413 && e.resp.status != 0){ res.fail("wrong-error-status",who + ": declared length above the limit answered with " + std::to_string(e.resp.status) + " instead of 413"); break; }
					continue; }
				if(e.timed_out){ res.fail("request-not-answered",who + ": no complete response within " + std::to_string(cl->timeout_us/1000000) + " simulated seconds (sent " + std::to_string(cl->sent) + " of " + std::to_string(e.wire.size()) + " bytes, received " + std::to_string(cl->in.size() + e.raw.size()) + ")"); break; }
				if(e.conn_closed_early && i > 0 && e.raw.empty() && conn_had_error) continue;   // after an error response the server closes the connection (any protocol)
				if(e.conn_closed_early && i > 0 && e.raw.empty()){
					// the server chose not to keep the connection alive: legitimate for HTTP (keep-alive is optional), not for FastCGI KEEP_CONN
					if(cl->proto == 2){ res.fail("keepalive-connection-dropped",who + ": FastCGI connection with KEEP_CONN was closed before this request was answered"); break; }
					continue; }
				// framing has to suit the protocol version of the request: an HTTP/1.0 peer does not know the chunked transfer coding (RFC 7230 3.3.1)
				if(cl->proto == 0 && !e.http11 && e.resp.chunked && e.well_formed){ res.fail("bad-response-framing",who + ": chunked transfer coding in the response to an HTTP/1.0 request (Connection: " + hdr(e.resp,"Connection") + ")"); break; }
				if(!e.resp.framing_error.empty()){ res.fail("bad-response-framing",who + ": " + e.resp.framing_error + " | raw head: " + esc(e.raw.substr(0,120))); break; }
				if(cl->proto == 2){ if(!e.fo.framing_error.empty()){ res.fail("bad-response-framing",who + ": " + e.fo.framing_error); break; } if(!e.fo.end){ res.fail("bad-response-framing",who + ": no END_REQUEST record"); break; } if(!e.fo.empty_stdout_seen && !e.fo.out.empty()){ res.fail("bad-response-framing",who + ": STDOUT stream not closed by an empty record"); break; }
					if(e.fo.proto_status != 0 || e.fo.app_status != 0){ res.fail("bad-response-framing",who + ": END_REQUEST status " + std::to_string(e.fo.proto_status) + "/" + std::to_string(e.fo.app_status)); break; } }
				if(!e.resp.complete){ res.fail("request-not-answered",who + ": connection closed without a complete response, raw: " + esc(e.raw.substr(0,200))); break; }
				bool raw_filtered = e.req.script == "/f" && !(e.req.path.compare(0,7,"/echomp") == 0 && !e.req.boundary.empty());
				size_t multipart_limit = e.req.script == "/f" && e.req.xlimit >= 0 ? (size_t)e.req.xlimit : multipart_limit_cfg, content_limit = e.req.script == "/f" && e.req.xlimit >= 0 ? (size_t)e.req.xlimit : content_limit_cfg; if(e.req.script == "/f" && e.req.xlimit >= 0) n_xlimit++;
				bool over = false; if(!e.is_writer && e.req.has_body){ if(!e.req.boundary.empty()){ over = e.req.body.size() > multipart_limit; if(!raw_filtered) for(auto &pt:e.req.parts) if(pt.ctype.empty() && pt.content.size() > content_limit) over = true; } else over = e.req.body.size() > content_limit; }
				if(e.resp.complete && e.resp.status >= 400) conn_had_error = true;
				/* a content filter (or the application, at the header stage) refused the upload with abort_upload(code): that code is the answer, the handler never sees the request */
				int abort_code = 0; if(!e.is_writer && e.req.script == "/f" && e.req.has_body && !e.req.body.empty()){ bool mp = e.req.path.compare(0,7,"/echomp") == 0 && !e.req.boundary.empty();
					if(mp && !e.req.parts.empty() && e.req.path.size() > 7 && e.req.path[7] == '4') abort_code = 403; else if(mp && !e.req.parts.empty() && e.req.path.size() > 7 && e.req.path[7] == '5') abort_code = 422; else if(e.req.path == "/abortraw") abort_code = 415; else if(e.req.path == "/aborthdr") abort_code = 401; }
				if(abort_code && e.resp.status == abort_code){ int ent0 = aw.entered.count(e.tag) ? aw.entered[e.tag] : 0; if(ent0 != 0){ res.fail("aborted-upload-reached-application",who + ": the upload was refused with abort_upload(" + std::to_string(abort_code) + ") and the handler ran all the same"); break; } n_abort_answers++; continue; }
				if(abort_code && !over && !(st.stdio_fail && (e.resp.status == 413 || e.resp.status == 500 || e.resp.status == 503))){ res.fail("unexpected-status",who + ": the content filter refused the upload with abort_upload(" + std::to_string(abort_code) + "), the peer got status " + std::to_string(e.resp.status)); break; }
				if(over){ n_over_limit++; int ent0 = aw.entered.count(e.tag) ? aw.entered[e.tag] : 0;
					if(e.resp.status != 413){ res.fail("limit-not-enforced",who + ": body of " + std::to_string(e.req.body.size()) + " bytes exceeds the configured limit but was answered with status " + std::to_string(e.resp.status)); break; }
					if(ent0 != 0){ res.fail("limit-not-enforced",who + ": over-limit request reached the application"); break; }
					continue; }
				if(st.stdio_fail && !e.req.boundary.empty() && !raw_filtered && (e.resp.status == 413 || e.resp.status == 500 || e.resp.status == 503)){   // the disk failed under an upload: refusing the request is right, delivering it in part is not
					if(aw.entered.count(e.tag) && aw.entered[e.tag]){ res.fail("refused-upload-reached-application",who + ": answered " + std::to_string(e.resp.status) + " after a disk error but the application ran"); break; } n_disk_refused++; continue; }
				int want_status = e.is_writer && e.script.size() > 1 && e.script[0] == 'r' && (e.salt & 1) ? 203 : 200;   // raw mode: the application's own Status header decides
				bool thrower = !e.is_writer && e.req.path == "/throw" && e.req.script != "/f"; if(thrower) want_status = 500;
				if(e.resp.status != want_status){ res.fail("unexpected-status",who + ": status " + std::to_string(e.resp.status) + (want_status == 200 ? " for a well-formed request" : want_status == 500 ? " for a request whose handler threw an exception (500 expected)" : " although the application's header block said 203") + "; body " + esc(e.resp.body.substr(0,200))); break; }
				int ent = aw.entered.count(e.tag) ? aw.entered[e.tag] : 0;
				if(ent != 1){ res.fail(ent == 0 ? "handler-not-entered" : "handler-entered-twice",who + ": main() entered " + std::to_string(ent) + " times"); break; }
				if(thrower){ n_thrown++; continue; }
				std::string body = e.resp.body;
				if(lower(hdr(e.resp,"Content-Encoding")) == "gzip" && body.empty()){ n_gzip_empty++; }   // nothing was written: cppcms announces gzip but sends no stream; the body still equals what the application wrote (DESIGN.md, observations)
				else if(lower(hdr(e.resp,"Content-Encoding")) == "gzip"){ bool ok; body = gunzip(body,ok); n_gzip++; if(!ok){ res.fail("bad-gzip-stream",who + ": response body (" + std::to_string(e.resp.body.size()) + " bytes) is not a complete gzip stream; raw response head: " + esc(e.raw.substr(0,400))); break; } if(!e.accept_gzip){ res.fail("unrequested-gzip",who + ": gzip without Accept-Encoding"); break; } }
				if(e.resp.chunked) n_chunked++;
				if(!e.is_writer){
					Expect x = expect(e.req,cl->proto,e.http11,cl->proto == 0 && e.keepalive,port);
					if(proxy_behind && cl->proto == 0){ auto it = x.env.find("HTTP_X_FORWARDED_FOR"); if(it != x.env.end() && !it->second.empty()){ std::string a = it->second; x.env["REMOTE_ADDR"] = a; x.env["REMOTE_HOST"] = a; n_proxy_addr++; } }   /* http.proxy.behind: the address the proxy reports for THIS request */
					// forwarded (forwarding.rules): the back-end receives the environment of the front connection as it is, plus CONTENT_LENGTH=0 when there was none
					if(e.req.host == "fwd.example"){ if(!x.env.count("CONTENT_LENGTH")) x.env["CONTENT_LENGTH"] = "0"; n_forwarded++; }
					std::string want;
					if(e.req.script == "/f" && e.req.has_body && !e.req.body.empty()){ n_filtered++;
						bool mp = e.req.path.compare(0,7,"/echomp") == 0 && !e.req.boundary.empty();
						if(!mp){ // raw filter: the application parses nothing, the filter saw every byte exactly once
							want = echo_text(x.env,x.get,Pairs(),x.cookies,"",std::vector<std::string>()) + "X mode=1 end=1 err=0 raw " + blob(e.req.body) + " chunks>0=1\n"; }
						else { want = echo_text(x.env,x.get,x.post,x.cookies,x.body,x.files) + "X mode=2 end=1 err=0 new=" + std::to_string(e.req.parts.size()) + " ready=" + std::to_string(e.req.parts.size()) + " shrank=0";
							int behav = e.req.path.size() > 7 && e.req.path[7] >= '1' && e.req.path[7] <= '5' ? e.req.path[7] - '0' : 0;
							if(behav){ std::string seen; if(behav <= 3) for(auto &pt:e.req.parts) seen += behav == 3 ? pt.name + ":" + pt.content.substr(0,4) + ";" : pt.name + ":" + std::to_string(pt.content.size()) + ":" + std::to_string((unsigned long long)wire::fnv(pt.content)) + ";"; want += " behav=" + std::to_string(behav) + " seen=" + std::to_string((unsigned long long)wire::fnv(seen)) + " badprog=0"; n_filter_reads++; }
							want += "\n"; } }
					else want = echo_text(x.env,x.get,x.post,x.cookies,x.body,x.files);
					if(e.req.script == "/s" && wire::internal_host(e.req.host)){ want = "H internal\n" + want; n_host_app++; }
					if(body != want && getenv("E1_DEBUG_ECHO")) fprintf(stderr,"---- got:\n%s\n---- want:\n%s\n",body.c_str(),want.c_str());
					// the class names the kind of the first differing line (E env, G get, P post, C cookie, B body, F file, X filter): minimisation must not drift from one kind of difference into another
					if(body != want){ std::string fd = first_diff(body,want); size_t g = fd.find("got line: "), x = fd.find("| expected line: "); std::string kind; if(g != std::string::npos && g + 10 < fd.size() && fd[g+10] != ' ') kind += fd[g+10]; else kind += '-'; if(x != std::string::npos && x + 17 < fd.size()) kind += fd[x+17]; else kind += '-';
						res.fail("request-misdelivered:" + kind,who + ": the application observed a different request. " + fd,"request-misdelivered"); break; }
				} else { n_writer++;
					std::string want = script_body(normalise_script(e.script),e.salt); const J *ck = nullptr; (void)ck;
					std::string ckey; { size_t p = e.req.query.find("&cache="); if(p != std::string::npos) ckey = e.req.query.substr(p+7); }
					if(!ckey.empty()){
						// a page cached under this key by ANY exchange of the run may be served instead (their order in time is not the plan order);
						// it must then be byte-identical to what that exchange's application wrote
						bool any = body == want; for(auto &c2:clients) for(auto &e2:c2->ex) if(e2.is_writer && e2.req.query.find("&cache=" + ckey) != std::string::npos && body == script_body(normalise_script(e2.script),e2.salt)) any = true;
						if(!any){ res.fail("response-body-mismatch",who + ": body (" + std::to_string(body.size()) + " bytes) is neither this script's output nor a page any exchange stored under cache key " + ckey); break; }
						if(body != want) n_cache_hits++;
					}
					else if(body != want){ size_t d = 0; while(d < body.size() && d < want.size() && body[d] == want[d]) d++; res.fail("response-body-mismatch",who + ": body has " + std::to_string(body.size()) + " bytes, the application wrote " + std::to_string(want.size()) + "; first difference at offset " + std::to_string(d) + " (script " + e.script.substr(0,120) + ")"); break; }
					// headers and cookies the script set
					size_t p = 0; std::string sc = e.script; bool served_from_cache = !ckey.empty();
					if(sc.size() > 1 && sc[0] == 'r'){ n_raw++; served_from_cache = true;   // raw mode: only the application's own header block counts
						if(hdr(e.resp,"X-Raw") != "yes"){ res.fail("response-header-missing",who + ": header X-Raw written by the application in raw mode is missing"); break; } }
					while(p < sc.size() && !served_from_cache){ size_t q = sc.find('.',p); if(q == std::string::npos) q = sc.size(); std::string t = sc.substr(p,q-p); p = q + 1; if(t.size() < 2) continue; long n = strtol(t.c_str()+1,nullptr,10);
						if(t[0] == 'h' && hdr(e.resp,"X-T" + std::to_string(n)) != "v" + std::to_string(n*7)){ res.fail("response-header-missing",who + ": header X-T" + std::to_string(n) + " set by the application is missing or wrong"); break; }
						if(t[0] == 'H'){ bool found = false; for(auto &h:e.resp.headers) if(lower(h.first) == "x-a" && h.second == "a" + std::to_string(n)) found = true; if(!found){ res.fail("response-header-missing",who + ": header line X-A: a" + std::to_string(n) + " added by the application with add_header() is missing"); break; } }
						if(t[0] == 'e' && !hdr(e.resp,"X-E" + std::to_string(n)).empty()){ res.fail("erased-header-sent",who + ": header X-E" + std::to_string(n) + " was erased by the application before any output and was sent all the same"); break; }
						if(t[0] == 'c'){ bool found = false; for(auto &h:e.resp.headers) if(lower(h.first) == "set-cookie" && h.second.find("ck" + std::to_string(n) + "=cv" + std::to_string(n*3)) != std::string::npos) found = true; if(!found){ res.fail("response-header-missing",who + ": cookie ck" + std::to_string(n) + " set by the application is missing"); break; } } }
				}
			} }
		if(!aw.save_dir.empty()){ if(DIR *d = opendir(aw.save_dir.c_str())){ while(struct dirent *de = readdir(d)){ if(de->d_name[0] != '.'){ std::string f = aw.save_dir + "/" + de->d_name; unlink(f.c_str()); } } closedir(d); } rmdir(aw.save_dir.c_str()); res.counters["uploads_saved_with_save_to"] = aw.saved; }
		if(!upload_dir.empty()){ std::string left; if(DIR *d = opendir(upload_dir.c_str())){ while(struct dirent *de = readdir(d)){ if(de->d_name[0] != '.'){ left += std::string(" ") + de->d_name; std::string f = upload_dir + "/" + de->d_name; unlink(f.c_str()); } } closedir(d); } rmdir(upload_dir.c_str());
			if(res.ok && !left.empty()) res.fail("upload-temp-file-left","temporary upload files survived their requests:" + left); }
		if(res.ok && conn_leak) res.fail("connection-not-released",std::to_string(conn_leak) + " accepted connections were still open after every peer had gone and the longest time-out had passed");
		if(res.ok) for(auto &kv:aw.on_error){ if(kv.second > 1) res.fail("upload-error-notified-twice","request " + kv.first + ": content filter on_error() called " + std::to_string(kv.second) + " times"); else if(aw.completed.count(kv.first)) res.fail("error-and-completion","request " + kv.first + ": on_error() was called and the handler completed as well"); n_on_error += kv.second; }
		if(res.ok && leaked) res.fail("descriptor-leak",std::to_string(leaked) + " simulated descriptors still open after the service was destroyed");
		/* every context::async_flush_output() of a response the peer received completely has had its handler called once with operation_completed */
		if(res.ok) for(auto &cl:clients) for(auto &e:cl->ex){ if(!e.is_writer || !e.done || e.aborted || e.tag.empty()) continue; int is = aw.flush_issued.count(e.tag) ? aw.flush_issued[e.tag] : 0, dn = aw.flush_done.count(e.tag) ? aw.flush_done[e.tag] : 0, ab = aw.flush_aborted.count(e.tag) ? aw.flush_aborted[e.tag] : 0;
			if(ab || dn != is){ res.fail("async-flush-handler-miscounted","request " + e.tag + ": the application called async_flush_output " + std::to_string(is) + " times; its handler ran " + std::to_string(dn) + " times with operation_completed and " + std::to_string(ab) + " times with operation_aborted although the peer read the whole response"); break; } }
		res.counters["async_flush_output_calls"] = aw.async_flushes; res.counters["responses_continued_on_a_later_event"] = aw.deferred_continuations;
		if(res.ok && !aw.full_disk_lie.empty()) res.fail("save-to-full-disk-reported-success",aw.full_disk_lie);
		res.counters["saves_to_a_full_disk"] = aw.full_disk_saves;
		if(res.ok && !aw.exception.empty()) res.fail("exception-escaped",aw.exception);
		res.counters["raw_mode_responses"] = n_raw; res.counters["client_aborts_mid_response"] = n_aborted; res.counters["filter_on_error_calls"] = n_on_error; res.counters["content_filter_requests"] = n_filtered; res.counters["filter_reads_parts"] = n_filter_reads; res.counters["requests_with_own_limits"] = n_xlimit; res.counters["forwarded_requests"] = n_forwarded; res.counters["remote_addr_from_proxy_header"] = n_proxy_addr; res.counters["clock_stepped_back_mid_request"] = clock_was_stepped ? 1 : 0; res.counters["handler_exceptions_answered_500"] = n_thrown; res.counters["uploads_refused_by_abort_upload"] = n_abort_answers; res.counters["runs_with_limits_of_2g_and_more"] = huge_kb ? 1 : 0; res.counters["host_mounted_app_requests"] = n_host_app; res.counters["accept_emfile"] = (long long)simk::stats().accept_emfile; res.counters["filters_installed"] = aw.filters_installed; res.counters["over_limit_413"] = n_over_limit; res.counters["gzip_announced_empty_body"] = n_gzip_empty; res.counters["malformed_exchanges"] = n_bad; res.counters["malformed_refused_as_required"] = n_bad_refused; res.counters["page_cache_hits"] = n_cache_hits; res.counters["exchanges"] = n_ex; res.counters["multi_segment_requests"] = n_multi_seg; res.counters["requests_with_body"] = n_body; res.counters["keepalive_followups"] = n_keepalive_followups; res.counters["writer_responses"] = n_writer; res.counters["gzip_responses"] = n_gzip; res.counters["chunked_responses"] = n_chunked;
		{ long long np = 0, nr = 0; for(auto &cl:clients){ np += cl->n_pauses; nr += cl->n_read_pauses; } res.counters["slow_peer_pauses"] = np; res.counters["slow_reader_pauses"] = nr; }
		res.counters["pipelined_requests"] = n_pipelined;
		res.counters["disk_faults_injected"] = (long long)st.stdio_fail; res.counters["upload_spill_stdio_calls"] = (long long)st.stdio_ops; res.counters["uploads_refused_after_disk_fault"] = n_disk_refused;
		res.counters["steps"] = (long long)st.steps; res.counters["switches"] = (long long)st.switches; res.counters["short_reads"] = (long long)st.short_reads; res.counters["short_writes"] = (long long)st.short_writes; res.counters["eagain"] = (long long)(st.eagain_r + st.eagain_w);
		res.counters["eintr"] = (long long)st.eintr; res.counters["spurious_wakeups"] = (long long)st.spurious; res.counters["accepts"] = (long long)st.accepts; res.counters["bytes_to_server"] = (long long)st.bytes_rx; res.counters["bytes_to_client"] = (long long)st.bytes_tx;
		res.counters["sim_seconds"] = sim_s; res.counters[rt == 0 ? "reactor_epoll" : rt == 1 ? "reactor_poll" : "reactor_select"] = 1;
		if(n_multi_seg + n_body > 0) res.nt = res.hash ? res.hash : 1;
		return res;
	}
};
}
int main(int argc,char **argv){ E1 e; return runner::main_impl(argc,argv,e,"E1"); }
