// E7 "crashfs": file-backed session storage on the simulated file system with systematic crash injection (C18).
// Real: sessions::session_file_storage (save/load/remove/gc, locking, CRC).  Simulated: disk, clock, process death.
// For every sampled history the crash states of the next save are ENUMERATED: every prefix of the write() sequence,
// byte prefixes of the in-flight write, and subsets of the dirty 512-byte sectors (power loss).
#include "session_posix_file_storage.h"
#include <cppcms/session_storage.h>
#include <cppcms/cppcms_error.h>
#include <memory>
#include <thread>
#include "../sim/runner.h"

namespace {
using cppcms::sessions::session_file_storage_factory;
using cppcms::sessions::session_storage;

const char *DIR_ = "/simfs/sess";
std::string sid_name(int i){ static const char *n[] = {"0123456789abcdef0123456789abcdef","fedcba9876543210fedcba9876543210","00000000000000000000000000000000","0123ffffffffffffffffffffffffffff"}; return n[((i%4)+4)%4]; }
std::string path_of(const std::string &sid){ return std::string(DIR_) + "/" + sid; }

struct Saved { int64_t deadline; std::string val; };
struct SidModel { bool present = false; Saved cur; std::vector<Saved> all; bool garbage = false; bool garbage_gc_must_remove = false; bool unsure = false; };   // unsure: a save failed half-way (disk error): the file holds whatever it holds

std::string make_payload(int kind,int len,int opidx,const std::string &prev){
	if(len < 0) len = 0; if(len > 200000) len = 200000;
	std::string v((size_t)len,'\0');
	switch(((kind%7)+7)%7){
	case 0: for(size_t j=0;j<v.size();j++) v[j] = (char)((opidx*131 + j*7 + 1) & 0xff); break;
	case 1: break;                                          // all zero bytes
	case 2: v = prev; break;                                // identical to the previous value
	case 3: v = prev; if(!v.empty()) v[v.size()-1] ^= 0x55; break;   // differs in the last byte only
	case 4: v = prev; v.resize((size_t)len,(char)opidx); break;      // previous value truncated / extended
	case 6: v = prev; for(size_t j=65536;j<v.size();j++) v[j] ^= 0xA5; break;   /* same length, same first 64 KiB, every later byte different (a checksum that looks at a prefix only accepts a torn mixture) */
	default: for(size_t j=0;j<v.size();j++) v[j] = (char)('a' + (opidx + j/512) % 26); break;   // constant per sector
	}
	return v;
}

struct E7 : Engine {
	J generate(uint64_t seed,const std::string &prop,bool thorough) override {
		simk::Rng r; r.seed(seed);
		J p = J::obj(); p["engine"] = "E7"; p["prop"] = prop;
		p["fault_seed"] = (unsigned long long)(r.next() >> 8);
		p["file_lock"] = (int)r.below(2);
		bool faults = r.below(4) == 0;
		p["p_file_short"] = faults ? (int)(20 + r.below(300)) : 0; p["p_file_eintr"] = faults ? (int)r.below(200) : 0;
		static const int lens[] = {0,1,15,16,17,100,480,495,496,497,511,512,513,1007,1008,1009,1024,1500,2000,3000};
		auto pick_len = [&]()->int { unsigned x = r.below(10); if(x < 6) return lens[r.below(20)]; if(x < 9) return (int)r.below(3000); return thorough ? (int)r.below(20000) : (int)r.below(6000); };
		J ops = J::arr(); int n = r.below(7);
		for(int i=0;i<n;i++){ J o = J::obj(); unsigned x = r.below(100);
			if(x < 40){ o["op"] = "save"; o["sid"] = (int)r.below(2); o["len"] = pick_len(); o["dl"] = r.below(6)==0 ? -(int)r.below(3) : 1 + (int)r.below(20); o["fill"] = (int)r.below(6); if(r.below(8) == 0){ o["disk"] = r.below(3) ? 1 : 2; o["skip"] = (int)r.below(3); } }   /* disk 1: full (ENOSPC), 2: I/O error - at the skip-th write() of this save */
			else if(x < 60){ o["op"] = "load"; o["sid"] = (int)r.below(2); }
			else if(x < 68){ o["op"] = "remove"; o["sid"] = (int)r.below(2); }
			else if(x < 78){ o["op"] = "gc"; }
			else if(x < 90){ o["op"] = "tick"; o["s"] = 1 + (int)r.below(12); }
			else { o["op"] = "garbage"; o["sid"] = 2 + (int)r.below(2); o["kind"] = (int)r.below(8); }
			ops.push(o); }
		p["ops"] = ops;
		J c = J::obj(); c["sid"] = (int)r.below(2); c["len"] = pick_len(); c["dl"] = 1 + (int)r.below(20); c["fill"] = (int)r.below(6);
		c["post"] = (int)r.below(4);   /* 0 load, 1 gc+load, 2 load twice, 3 the application repeats the interrupted save (same value, same deadline) to completion and loads */ c["tick_after"] = r.below(3)==0 ? (int)r.below(25) : 0; c["random_states"] = thorough ? 256 : 64;
		p["crash"] = c;
		/* one plan in 24 ("bigtail", round 9): a large session value (more than 64 KiB) is saved, then a value of the same length that differs behind the first 64 KiB only is saved and cut */
		if(r.below(24) == 0){ int s = (int)r.below(2); int L = 65537 + (int)r.below(thorough ? 90000 : 30000); J o = J::obj(); o["op"] = "save"; o["sid"] = s; o["len"] = L; o["dl"] = 5 + (int)r.below(20); o["fill"] = 0; J ops2 = J::arr(); ops2.push(o); p["ops"] = ops2; J c2 = J::obj(); c2["sid"] = s; c2["len"] = L; c2["dl"] = 1 + (int)r.below(20); c2["fill"] = 6; c2["post"] = (int)r.below(4); c2["tick_after"] = 0; c2["random_states"] = 32; p["crash"] = c2; p["bigtail"] = 1; }
		// a fifth of the plans: instead of the crashing save, a concurrent phase - savers, loaders, removers and gc as scheduled threads on the same two sessions
		if(r.below(5) == 0){ p["crash"] = J(); J th = J::arr(); int nt = 2 + r.below(2);
			for(int t=0;t<nt;t++){ J l = J::arr(); int k = 1 + r.below(3);
				for(int i=0;i<k;i++){ J o = J::obj(); unsigned x = r.below(100);
					if(x < 40){ o["op"] = "save"; o["sid"] = (int)r.below(2); o["len"] = pick_len(); o["dl"] = r.below(8)==0 ? -(int)(1 + r.below(3)) : 1 + (int)r.below(20); o["fill"] = (int)r.below(2) * 5; }
					else if(x < 65){ o["op"] = "load"; o["sid"] = (int)r.below(2); }
					else if(x < 72){ o["op"] = "remove"; o["sid"] = (int)r.below(2); }
					else { o["op"] = "gc"; }
					l.push(o); }
				th.push(l); }
			if(r.below(3) == 0){ p["procs"] = 2; p["file_lock"] = 1; }   // two processes (two storage objects, each with its own per-session mutexes) share the directory: only the fcntl record locks order them
			p["conc"] = th; p["sched_seed"] = (unsigned long long)(r.next() >> 8); p["strategy"] = (int)r.below(3); p["pct_depth"] = 1 + (int)r.below(3); p["pct_len"] = 30 + (int)r.below(600); }
		return p;
	}

	struct Ctx { RunResult *res; std::map<std::string,SidModel> model; std::map<std::string,int64_t> cnt; bool faults = false;
		int64_t now(){ return simk::now_us()/1000000; }
		void fail(const std::string &c,const std::string &m){ res->fail(c,m); } };

	static std::string show(const std::string &v){ return "len " + std::to_string(v.size()) + " fnv " + std::to_string(runner::fnv(v) & 0xffffff); }

	// normal (un-crashed) load must agree exactly with the model
	static void do_load(Ctx &c,session_storage &st,const std::string &sid,const char *where){
		time_t dl = 0; std::string out; bool ok = st.load(sid,dl,out);
		SidModel &m = c.model[sid];
		if(m.unsure){   // after a save that failed with a disk error: nothing, or a complete (value, deadline) pair that some save - the failed one included - wrote as a whole; then the state is known again
			m.unsure = false; c.cnt["loads_after_failed_save"]++;
			if(!ok){ m.present = false; if(simk::fs_exists(path_of(sid))) c.fail("unreadable-file-not-removed",std::string(where) + ": load(" + sid.substr(0,6) + ") failed but the file is still there"); return; }
			for(auto &s:m.all) if(s.val == out && s.deadline == (int64_t)dl){ if((int64_t)dl < c.now()){ c.fail("stale-or-expired-session-loaded",std::string(where) + ": load returned a session whose deadline has passed"); return; } m.present = true; m.cur = s; return; }
			c.fail("corrupted-session-after-disk-error",std::string(where) + ": after a save that failed with a disk error load returned " + show(out) + " deadline " + std::to_string((long)dl) + " which no save ever wrote as a whole"); return; }
		bool want = m.present && m.cur.deadline >= c.now();
		if(ok != want){ c.fail(ok ? "stale-or-expired-session-loaded" : "live-session-lost",std::string(where) + ": load(" + sid.substr(0,6) + ") returned " + (ok ? "a value (" + show(out) + ")" : "nothing") + " but the model says " + (want ? "live session " + show(m.cur.val) + " deadline +" + std::to_string((long)(m.cur.deadline-c.now())) : std::string(m.present ? "expired" : "absent"))); return; }
		if(ok && (out != m.cur.val || (int64_t)dl != m.cur.deadline)){ c.fail("wrong-session-data",std::string(where) + ": load returned " + show(out) + " deadline " + std::to_string((long)dl) + " expected " + show(m.cur.val) + " deadline " + std::to_string((long)m.cur.deadline)); return; }
		if(!ok){ if(simk::fs_exists(path_of(sid))) c.fail("unreadable-file-not-removed",std::string(where) + ": load(" + sid.substr(0,6) + ") failed but the file is still there"); m.present = false; c.cnt["load_miss"]++; }
		else c.cnt["load_hit"]++;
	}
	static void do_gc(Ctx &c,session_file_storage_factory &f,const char *where){
		f.gc_job(); c.cnt["gc"]++;
		for(auto &kv:c.model){ bool exists = simk::fs_exists(path_of(kv.first));
			if(kv.second.garbage){
				// planted garbage: gc must remove it when its time stamp is unreadable or in the past; a record with a plausible
				// future time stamp but a broken body is only detected (and removed) by load - nothing is demanded of gc there
				if(kv.second.garbage_gc_must_remove && exists) c.fail("gc-kept-dead-file",std::string(where) + ": gc kept a file whose time stamp is unreadable: " + kv.first.substr(0,6));
				if(!exists) kv.second.garbage = false;
				continue; }
			bool live = kv.second.present && kv.second.cur.deadline >= c.now();
			if(live && !exists) c.fail("gc-removed-live-session",std::string(where) + ": gc removed live session " + kv.first.substr(0,6));
			if(!live && exists) c.fail("gc-kept-dead-file",std::string(where) + ": gc kept the file of a dead session " + kv.first.substr(0,6));
			if(!live) kv.second.present = false; }
	}
	static void apply(simk::FsImage &img,const simk::FsEvent &ev,size_t nbytes){
		switch(ev.kind){
		case simk::FsEvent::CREATE: { auto f = std::make_shared<simk::FsFile>(); f->ino = 9000 + img.files.size(); img.files[ev.path] = f; } break;
		case simk::FsEvent::WRITE: { auto it = img.files.find(ev.path); if(it == img.files.end()) return; std::string &d = it->second->data; size_t n = std::min(nbytes,ev.new_bytes.size()); if(!n) return; if(ev.off + n > d.size()) d.resize(ev.off + n,0); memcpy(&d[ev.off],ev.new_bytes.data(),n); } break;
		case simk::FsEvent::UNLINK: img.files.erase(ev.path); break;
		case simk::FsEvent::TRUNC: { auto it = img.files.find(ev.path); if(it != img.files.end()) it->second->data.clear(); } break;
		default: break; }
	}
	static simk::FsImage copy(const simk::FsImage &a){ simk::FsImage r; r.dirs = a.dirs; for(auto &kv:a.files) r.files[kv.first] = std::make_shared<simk::FsFile>(*kv.second); return r; }

	// after a crash: restart over the surviving image and check what comes back
	void check_state(Ctx &c,const simk::FsImage &img,const std::string &sid,const Saved &inflight,int post,bool file_lock,const std::string &what,const std::string &other_sid){
		if(!c.res->ok) return;
		simk::fs_restore(img);
		c.cnt["crash_states"]++;
		session_file_storage_factory f(DIR_,5,1,file_lock);
		booster::shared_ptr<session_storage> st = f.get();
		SidModel &m = c.model[sid];
		if(post == 1) f.gc_job();
		if(post == 3){   // after the restart the request is repeated: a completed save must be readable whatever the crash left in the file
			c.cnt["crash_then_resave"]++;
			try { st->save(sid,inflight.deadline,inflight.val); } catch(cppcms::cppcms_error const &e){ c.fail("save-failed",what + ": repeating the save after the crash threw " + e.what()); return; }
			time_t dl = 0; std::string out; bool ok = st->load(sid,dl,out); bool want = inflight.deadline >= c.now();
			if(ok != want || (ok && (out != inflight.val || (int64_t)dl != inflight.deadline))){ c.fail("live-session-lost",what + ": the save was repeated to completion after the crash, yet load returned " + (ok ? show(out) : std::string("nothing")) + " instead of " + show(inflight.val)); return; }
			return; }
		for(int round = 0; round < (post == 2 ? 2 : 1); round++){
			time_t dl = 0; std::string out; bool ok = st->load(sid,dl,out);
			if(ok){
				c.cnt["crash_load_ok"]++;
				bool match = (out == inflight.val && (int64_t)dl == inflight.deadline);
				if(match) c.cnt["crash_load_new"]++;
				for(auto &s:m.all) if(!match && s.val == out && s.deadline == (int64_t)dl){ match = true; c.cnt["crash_load_old"]++; }
				if(!match){ c.fail("corrupted-session-after-crash",what + ": load returned " + show(out) + " deadline " + std::to_string((long)dl) + " which no save ever wrote as a whole (new: " + show(inflight.val) + " deadline " + std::to_string((long)inflight.deadline) + ")"); return; }
				if((int64_t)dl < c.now()){ c.fail("stale-or-expired-session-loaded",what + ": load returned a session whose deadline has passed"); return; }
			} else {
				c.cnt["crash_load_none"]++;
				if(simk::fs_exists(path_of(sid))){ c.fail("unreadable-file-not-removed",what + ": load failed but the file is still there"); return; }
			}
		}
		// a crash while saving one session must not hurt another one
		if(!other_sid.empty()){ SidModel &o = c.model[other_sid]; bool want = o.present && o.cur.deadline >= c.now(); time_t dl = 0; std::string out; bool ok = st->load(other_sid,dl,out);
			if(ok != want || (ok && (out != o.cur.val || (int64_t)dl != o.cur.deadline))) c.fail("other-session-damaged",what + ": the untouched session " + other_sid.substr(0,6) + " no longer loads its value"); }
	}

	RunResult run(const J &plan) override {
		RunResult res; Ctx c; c.res = &res;
		simk::Params sp; sp.fault_seed = (uint64_t)plan.geti("fault_seed",1); sp.tick_us = 0; sp.text_trace = plan.geti("text_trace");
		sp.p_file_short = (unsigned)std::max<int64_t>(0,std::min<int64_t>(plan.geti("p_file_short"),1024)); sp.p_file_eintr = (unsigned)std::max<int64_t>(0,std::min<int64_t>(plan.geti("p_file_eintr"),900));
		sp.sched_seed = (uint64_t)plan.geti("sched_seed",1); sp.strategy = (int)(((plan.geti("strategy") % 3) + 3) % 3); sp.pct_depth = (int)std::max<int64_t>(1,std::min<int64_t>(plan.geti("pct_depth",2),8)); sp.pct_len = (int)std::max<int64_t>(1,plan.geti("pct_len",200));
		c.faults = sp.p_file_short || sp.p_file_eintr; sp.file_short_min = 17;   // the 16-byte header is atomic by the property's premise
		simk::begin(sp);
		bool file_lock = plan.geti("file_lock");
		simk::fs_mkdir(DIR_);
		const J &ops = plan.get("ops");
		std::string prev;
		{
			std::unique_ptr<session_file_storage_factory> f(new session_file_storage_factory(DIR_,5,1,file_lock));
			booster::shared_ptr<session_storage> st = f->get();
			for(size_t i=0;i<ops.size() && res.ok;i++){
				const J &o = ops.a[i]; std::string op = o.gets("op"); std::string sid = sid_name((int)o.geti("sid")); std::string where = "op#" + std::to_string(i) + " " + op;
				if(op == "save"){ Saved s; s.val = make_payload((int)o.geti("fill"),(int)o.geti("len"),(int)i,prev); s.deadline = c.now() + o.geti("dl"); prev = s.val;
					int disk = (int)o.geti("disk"); bool threw = false; if(disk) simk::arm_file_write_fault((int)std::max<int64_t>(0,std::min<int64_t>(o.geti("skip"),8)),disk == 1 ? ENOSPC : EIO);
					try { st->save(sid,s.deadline,s.val); } catch(cppcms::cppcms_error const &e){ threw = true; if(!disk || !simk::stats().file_write_failed){ simk::disarm_file_write_fault(); c.fail("save-failed",where + ": save threw " + e.what()); break; } }
					simk::disarm_file_write_fault();
					SidModel &m = c.model[sid]; m.all.push_back(s);
					if(threw){ m.unsure = true; c.cnt["saves_failed_by_disk_error"]++; do_load(c,*st,sid,(where + " (failed: disk error) then load").c_str()); continue; }   // the application saw the failure; what the file holds now is checked at once
					m.present = true; m.cur = s; m.unsure = false; c.cnt["save"]++;
					if(c.faults) do_load(c,*st,sid,(where + " then load").c_str());   // a completed save must be readable, also under short/interrupted I/O
				}
				else if(op == "load") do_load(c,*st,sid,where.c_str());
				else if(op == "remove"){ st->remove(sid); c.model[sid].present = false; if(simk::fs_exists(path_of(sid))) c.fail("remove-left-file",where + ": file still exists"); c.cnt["remove"]++; }
				else if(op == "gc") do_gc(c,*f,where.c_str());
				else if(op == "tick"){ simk::advance_us(std::max<int64_t>(0,std::min<int64_t>(o.geti("s"),100000))*1000000); c.cnt["tick"]++; }
				else if(op == "garbage"){ std::string g; int k = (int)o.geti("kind");
					int64_t future = c.now() + 1000; uint32_t crc = 0x12345678, size = 10;
					switch(((k%8)+8)%8){ case 0: break; case 1: g = std::string("\x01\x02\x03\x04\x05",5); break;
					case 2: g.assign((char*)&future,8); g.append((char*)&crc,4); g.append((char*)&size,4); break;                               // header only, data missing
					case 3: size = 0x100000u; g.assign((char*)&future,8); g.append((char*)&crc,4); g.append((char*)&size,4); g += "xx"; break;   // size far beyond the file (1 MiB; 4 GiB would make load() zero-fill 4 GiB of memory first - noted in DESIGN.md)
					case 4: g.assign((char*)&future,8); g.append((char*)&crc,4); g.append((char*)&size,4); g += "short"; break;                   // short data
					case 5: g.assign((char*)&future,8); g.append((char*)&crc,4); g.append((char*)&size,4); g += "0123456789"; break;             // wrong crc
					case 6: size = 0; g.assign((char*)&future,8); g.append((char*)&crc,4); g.append((char*)&size,4); break;                          // length field 0 but a checksum that is not the one of the empty string (a record whose length field was wiped)
					default: size = 0; g.assign((char*)&future,8); g.append((char*)&crc,4); g.append((char*)&size,4); g += "tail of an earlier, longer record"; break; }
					simk::fs_put(path_of(sid),g); SidModel &gm = c.model[sid]; gm.garbage = true; gm.garbage_gc_must_remove = g.size() < 8; gm.present = false; c.cnt["garbage"]++; }
			}
			// a file with a well-formed name that holds garbage is "unreadable": load reports no session and removes it
			if(res.ok) for(int g=2;g<4;g++){ std::string sid = sid_name(g); if(c.model.count(sid) && simk::fs_exists(path_of(sid))){ c.cnt["garbage_loads"]++; try { do_load(c,*st,sid,"garbage file"); } catch(std::exception const &e){ c.fail("garbage-file-crashes-load",std::string("load of a garbage file threw ") + e.what()); } } }
		}
		// ---------------- concurrent phase (no crash): each session file behaves as a regular register whose values are (value, deadline) or "absent".
		// A load returns what some save wrote as a whole - a save that had started before the load ended and was not surely overwritten (by a save / remove that
		// started after it had completed and completed before the load started) - or nothing if such a candidate is a remove, the initial absence, or a record past
		// its deadline. gc and load remove dead records only, so they are not writers: a live session that vanishes is a violation whoever unlinked it.
		const J &cc = plan.get("conc");
		if(res.ok && cc.is_arr() && cc.size()){
			struct W { uint64_t st, en; bool present; Saved s; };
			std::map<std::string,std::vector<W>> ws; uint64_t ev = 0; c.cnt["concurrent_runs"]++;
			for(int i=0;i<2;i++){ std::string sid = sid_name(i); SidModel &m = c.model[sid]; W w; w.st = w.en = 0; w.present = m.present; w.s = m.cur; ws[sid].reserve(32); ws[sid].push_back(w); }
			int procs = plan.geti("procs") == 2 && file_lock ? 2 : 1; if(procs == 2) c.cnt["two_process_runs"]++;
			session_file_storage_factory f(DIR_,5,procs,file_lock); booster::shared_ptr<session_storage> st = f.get(); int64_t now0 = c.now();
			std::unique_ptr<session_file_storage_factory> f2; booster::shared_ptr<session_storage> st2; if(procs == 2){ f2.reset(new session_file_storage_factory(DIR_,5,2,true)); st2 = f2->get(); }
			auto judge_load = [&](const std::string &sid,uint64_t ls,uint64_t le,bool ok,const std::string &out,int64_t dl,const std::string &where){
				bool fine = false; std::string cands;
				for(const W &w:ws[sid]){ if(w.st >= le) continue; bool dead = false; for(const W &w2:ws[sid]) if(w2.st > w.en && w2.en < ls) dead = true; if(dead) continue;
					bool live = w.present && w.s.deadline >= now0; cands += live ? " live(" + show(w.s.val) + ")" : " none";
					if(ok ? (live && w.s.val == out && w.s.deadline == dl) : !live) fine = true; }
				if(fine) return;
				if(ok) c.fail("corrupted-session-concurrent",where + ": load(" + sid.substr(0,6) + ") returned " + show(out) + " deadline " + std::to_string((long)dl) + " which is not what a save that could be current wrote; candidates:" + cands);
				else c.fail("live-session-lost",where + ": load(" + sid.substr(0,6) + ") found nothing although every candidate state is a live session:" + cands + " (gc / load / a concurrent save removed or hid it)"); };
			auto worker = [&](int me){ const J &l = cc.a[me]; bool second = procs == 2 && (me & 1); simk::set_node(second ? 1 : 0); session_storage &S = second ? *st2 : *st; session_file_storage_factory &F = second ? *f2 : f;
				for(size_t i=0;i<l.size() && i<6 && res.ok;i++){ const J &o = l.a[i]; std::string op = o.gets("op"); std::string sid = sid_name((int)(o.geti("sid") & 1)); std::string where = "thread " + std::to_string(me) + " op#" + std::to_string(i) + " " + op;
					try {
					if(op == "save"){ W w; w.present = true; w.s.val = make_payload((int)o.geti("fill") ? 5 : 0,(int)o.geti("len"),(int)(me*16+i),""); w.s.deadline = now0 + o.geti("dl"); size_t idx; { simk::TsanIgnore ign; w.st = ++ev; w.en = UINT64_MAX; ws[sid].push_back(w); idx = ws[sid].size()-1; }
						S.save(sid,w.s.deadline,w.s.val); { simk::TsanIgnore ign; ws[sid][idx].en = ++ev; } c.cnt["conc_saves"]++; }
					else if(op == "remove"){ W w; w.present = false; size_t idx; { simk::TsanIgnore ign; w.st = ++ev; w.en = UINT64_MAX; ws[sid].push_back(w); idx = ws[sid].size()-1; } S.remove(sid); { simk::TsanIgnore ign; ws[sid][idx].en = ++ev; } }
					else if(op == "gc"){ F.gc_job(); c.cnt["conc_gc"]++; }
					else { uint64_t ls,le; { simk::TsanIgnore ign; ls = ++ev; } time_t dl = 0; std::string out; bool ok = S.load(sid,dl,out); { simk::TsanIgnore ign; le = ++ev; judge_load(sid,ls,le,ok,out,(int64_t)dl,where); c.cnt["conc_loads"]++; } }
					} catch(std::exception const &e){ c.fail("storage-threw",where + ": " + e.what()); } } };
			{ std::vector<std::thread> thr; for(size_t t=0;t<cc.size() && t<4;t++) thr.emplace_back([&,t]{ worker((int)t); }); for(auto &t:thr) t.join(); }
			// afterwards: every session holds the last state written (a state no completed later write replaced), and gc run alone keeps the live ones
			for(int round=0;round<2 && res.ok;round++){ if(round) f.gc_job();
				for(int i=0;i<2 && res.ok;i++){ std::string sid = sid_name(i); time_t dl = 0; std::string out; bool ok = st->load(sid,dl,out); judge_load(sid,ev+1,ev+2,ok,out,(int64_t)dl,round ? "after the concurrent phase and a gc" : "after the concurrent phase");
					if(res.ok && !ok && simk::fs_exists(path_of(sid))) c.fail("unreadable-file-not-removed","after the concurrent phase: load(" + sid.substr(0,6) + ") failed but the file is still there"); } }
			if(c.cnt["conc_saves"] && c.cnt["conc_loads"] + c.cnt["conc_gc"]) res.nt = simk::trace_hash() | 1;
		}
		// ---------------- the crashing save
		const J &cr = plan.get("crash");
		if(res.ok && cr.is_obj()){
			std::string sid = sid_name((int)(cr.geti("sid") & 1)); std::string other = sid_name((int)((cr.geti("sid") & 1) ^ 1)); if(!c.model.count(other)) other.clear();
			Saved nw; nw.val = make_payload((int)cr.geti("fill"),(int)cr.geti("len"),999,prev); nw.deadline = c.now() + std::max<int64_t>(1,cr.geti("dl"));
			if(nw.val.size() > 65536) c.cnt["crash_saves_over_64k"]++;
			simk::FsImage pre = simk::fs_snapshot();
			size_t j0 = simk::fs_journal().size();
			{ session_file_storage_factory f(DIR_,5,1,file_lock); try { f.get()->save(sid,nw.deadline,nw.val); } catch(cppcms::cppcms_error const &e){ c.fail("save-failed",std::string("crash save threw ") + e.what()); } }
			std::vector<simk::FsEvent> evs(simk::fs_journal().begin()+j0,simk::fs_journal().end());
			simk::FsImage fin = simk::fs_snapshot();
			int post = (int)(((cr.geti("post")%4)+4)%4); bool fl = file_lock;
			int64_t ta = std::max<int64_t>(0,std::min<int64_t>(cr.geti("tick_after"),100000)); if(ta) simk::advance_us(ta*1000000);
			std::string P = path_of(sid);
			if(res.ok){
				// (a) process death: after each prefix of the event sequence, and inside each write after byte prefixes
				for(size_t k=0;k<=evs.size() && res.ok;k++){
					simk::FsImage img = copy(pre); for(size_t e=0;e<k;e++) apply(img,evs[e],(size_t)-1);
					check_state(c,img,sid,nw,post,fl,"process crash after " + std::to_string(k) + "/" + std::to_string(evs.size()) + " file operations",other); c.cnt["states_process_prefix"]++;
					if(k < evs.size() && evs[k].kind == simk::FsEvent::WRITE && evs[k].off >= 16){   // byte prefixes of the data area only; the header write is atomic
						size_t n = evs[k].new_bytes.size(); std::set<size_t> cuts;
						if(n <= 600) for(size_t b=1;b<n;b++) cuts.insert(b);
						else { for(size_t b=1;b<=64;b++){ cuts.insert(b); cuts.insert(n-b); } for(size_t s=512;s<n+ evs[k].off;s+=512){ if(s > evs[k].off){ size_t b = s - evs[k].off; for(int d=-2;d<=2;d++) if(b+d>0 && b+d<n) cuts.insert(b+d); } } for(int q=0;q<64;q++) cuts.insert(1+simk::fault_rng().below(n-1)); }
						for(size_t b:cuts){ if(!res.ok) break; simk::FsImage im2 = copy(img); apply(im2,evs[k],b); check_state(c,im2,sid,nw,post,fl,"process crash inside file operation " + std::to_string(k) + " after " + std::to_string(b) + " of " + std::to_string(n) + " bytes",other); c.cnt["states_torn_write"]++; }
					}
				}
				// (b) power loss: subsets of the dirty sectors reach the disk
				auto oldf = pre.files.find(P); bool existed = oldf != pre.files.end(); std::string O = existed ? oldf->second->data : std::string(); auto nf = fin.files.find(P); std::string F = nf != fin.files.end() ? nf->second->data : std::string();
				std::set<size_t> dirty; for(auto &e:evs) if(e.kind == simk::FsEvent::WRITE && e.path == P && !e.new_bytes.empty()) for(size_t s=e.off/512;s<=(e.off+e.new_bytes.size()-1)/512;s++) dirty.insert(s);
				std::vector<size_t> ds(dirty.begin(),dirty.end()); size_t nd = ds.size();
				std::vector<std::vector<bool>> subsets;
				if(nd <= 10){ for(size_t mask=0;mask<(1u<<nd);mask++){ std::vector<bool> s(nd); for(size_t i=0;i<nd;i++) s[i] = mask>>i&1; subsets.push_back(s); } c.cnt["sector_subsets_exhaustive"]++; }
				else { for(size_t i=0;i<nd;i++){ std::vector<bool> a(nd,true),b(nd,false),pfx(nd,false),sfx(nd,false); a[i]=false; b[i]=true; for(size_t j=0;j<=i;j++) pfx[j]=true; for(size_t j=i;j<nd;j++) sfx[j]=true; subsets.push_back(a); subsets.push_back(b); subsets.push_back(pfx); subsets.push_back(sfx); }
					int nr = (int)std::max<int64_t>(0,std::min<int64_t>(cr.geti("random_states",64),4096)); for(int q=0;q<nr;q++){ std::vector<bool> s(nd); for(size_t i=0;i<nd;i++) s[i] = simk::fault_rng().below(2); subsets.push_back(s); } subsets.push_back(std::vector<bool>(nd,false)); subsets.push_back(std::vector<bool>(nd,true)); }
				for(auto &sub:subsets){ if(!res.ok) break;
					for(int lenmode=0;lenmode<2 && res.ok;lenmode++){
						if(lenmode == 1 && F.size() <= O.size()) continue;
						size_t L = lenmode ? F.size() : O.size(); if(!lenmode && F.size() < O.size()) L = O.size();
						std::string d(L,'\0'); memcpy(&d[0],O.data(),std::min(L,O.size()));
						for(size_t i=0;i<nd;i++) if(sub[i]){ size_t a = ds[i]*512, b = std::min(a+512,std::min(L,F.size())); if(a < b) memcpy(&d[a],F.data()+a,b-a); }
						simk::FsImage img = copy(pre); auto ff = std::make_shared<simk::FsFile>(); ff->data = d; ff->ino = 7777; img.files[P] = ff;
						check_state(c,img,sid,nw,post,fl,"power loss: " + std::to_string(std::count(sub.begin(),sub.end(),true)) + " of " + std::to_string(nd) + " dirty sectors persisted, length " + (lenmode ? "new" : "old"),other); c.cnt["states_power_loss"]++;
						if(!existed && res.ok && lenmode == 0){ simk::FsImage im2 = copy(pre); im2.files.erase(P); check_state(c,im2,sid,nw,post,fl,"power loss: directory entry of the new file not persisted",other); c.cnt["states_power_loss"]++; }
					} }
				// reach probes
				if(nd >= 2) c.cnt["probe_multi_sector"]++; if(existed && O.size() > 16 + nw.val.size()) c.cnt["probe_old_longer_than_new"]++; if(existed && O.size() == 16 + nw.val.size()) c.cnt["probe_equal_length"]++; if(existed && O.size() < 16 + nw.val.size()) c.cnt["probe_old_shorter_than_new"]++; if(!existed) c.cnt["probe_new_file"]++;
			}
		}
		res.hash = simk::trace_hash() ^ runner::fnv(std::to_string(c.cnt["crash_states"]) + ":" + std::to_string(c.cnt["crash_load_new"]) + ":" + std::to_string(c.cnt["crash_load_old"]));
		res.counters["file_short_io"] = (long long)simk::stats().file_short; res.counters["file_eintr"] = (long long)simk::stats().file_eintr;
		res.counters["sim_seconds"] = (long long)((simk::now_us() - sp.start_time_s*1000000LL)/1000000);
		simk::end();
		for(auto &kv:c.cnt) res.counters[kv.first] = (long long)kv.second;
		if(!res.nt && c.cnt["crash_states"] > 3 && c.cnt["crash_load_none"] > 0 && (c.cnt["crash_load_old"] + c.cnt["crash_load_new"]) > 0) res.nt = res.hash ? res.hash : 1;
		return res;
	}
};
}
int main(int argc,char **argv){ E7 e; return runner::main_impl(argc,argv,e,"E7"); }
