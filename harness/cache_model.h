// Sequential reference model of the cppcms cache (DESIGN.md Appendix A). Used by E2 (exact comparison),
// E3 (linearizability search) and E4 (single-copy model of the networked cache).
#pragma once
#include <map>
#include <set>
#include <string>
#include <cstdint>

struct CacheEntry {
	std::string val; std::set<std::string> trig; int64_t deadline = 0;
	uint64_t lru = 0;   // larger = more recently used
	uint64_t ins = 0;   // insertion sequence (ties among equal deadlines)
	bool operator==(const CacheEntry &o) const { return val == o.val && trig == o.trig && deadline == o.deadline && lru == o.lru && ins == o.ins; }
};

struct CacheModel {
	unsigned limit = 0;
	std::map<std::string,CacheEntry> m;
	uint64_t stamp = 0, ins = 0;

	bool fetch(const std::string &k,int64_t now,const CacheEntry **out = nullptr) {
		auto it = m.find(k);
		if(it == m.end() || it->second.deadline < now) return false;
		it->second.lru = ++stamp;
		if(out) *out = &it->second;
		return true;
	}
	// one eviction step in the prescribed order; returns false when nothing can be evicted
	bool evict_one(int64_t now,std::string *victim = nullptr) {
		if(m.empty()) return false;
		auto best = m.end();
		for(auto it = m.begin(); it != m.end(); ++it)
			if(best == m.end() || it->second.deadline < best->second.deadline || (it->second.deadline == best->second.deadline && it->second.ins < best->second.ins)) best = it;
		if(!(best->second.deadline < now)) {
			best = m.end();
			for(auto it = m.begin(); it != m.end(); ++it) if(best == m.end() || it->second.lru < best->second.lru) best = it;
		}
		if(victim) *victim = best->first;
		m.erase(best);
		return true;
	}
	void store(const std::string &k,const std::string &v,const std::set<std::string> &trig,int64_t deadline,int64_t now) {
		m.erase(k);
		while(limit > 0 && m.size() >= limit && evict_one(now)) {}
		CacheEntry e; e.val = v; e.trig = trig; e.trig.insert(k); e.deadline = deadline; e.lru = ++stamp; e.ins = ++ins;
		m[k] = e;
	}
	void rise(const std::string &t) { for(auto it = m.begin(); it != m.end();) { if(it->second.trig.count(t)) it = m.erase(it); else ++it; } }
	void remove(const std::string &k) { m.erase(k); }
	void clear() { m.clear(); }
	void stats(unsigned &keys,unsigned &trigs) const { keys = m.size(); trigs = 0; for(auto &kv : m) trigs += kv.second.trig.size(); }
	bool operator==(const CacheModel &o) const { return limit == o.limit && m == o.m; }
};
