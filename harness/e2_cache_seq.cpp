// E2 "cache-seq": cache back-ends and cache_interface against the sequential model (C07, C08).
// Real: mem_cache<thread_settings>, mem_cache<process_settings> (shmem + buddy allocator), hash_map,
// cache_interface + triggers_recorder over a cppcms::service.  Simulated: clock.
#include <cppcms/service.h>
#include <cppcms/cache_interface.h>
#include <cppcms/application.h>
#include <cppcms/http_context.h>
#include <cppcms/http_response.h>
#include "dummy_api.h"   // the repository's own unit-test connection (tests/dummy_api.h): a context without sockets
#include <cppcms/cache_pool.h>
#include <cppcms/json.h>
#include "cache_storage.h"
#include "base_cache.h"
#include "shmem_allocator.h"
#include <sstream>
#include <sys/wait.h>
#include <unistd.h>
#include <fcntl.h>
#include <memory>
#include "../sim/runner.h"
#include "cache_model.h"

namespace cppcms { namespace impl { struct process_settings { static shmem_control *process_memory; }; } }

namespace {
using cppcms::impl::base_cache;

int g_key_pad[64];   // per-run: key i is padded to this length (long keys exercise allocation failures while the key itself is copied into shared memory)
bool g_colliding = false;   // "k0", "j@", "iP", "h`" have the same cppcms string_hash: one bucket chain in every table size
std::string key_name(int k){ static const char *coll[] = {"k0","j@","iP","h`","k0_xybkckgp"}; std::string n = g_colliding && k >= 0 && k < 5 ? std::string(coll[k]) : "k" + std::to_string(k);   /* the fifth has "k0" as a proper prefix AND the same hash */ int pad = (k >= 0 && k < 64) ? g_key_pad[k] : 0; if(pad > (int)n.size()) n += std::string((size_t)pad - n.size(),(char)('A' + k % 26)); return n; }
std::string trig_name(int t){ if(g_colliding && t == 1) return "t0_cybbclep";   /* same hash as "t0", which is its prefix */ return t >= 100 ? key_name(t-100) : "t" + std::to_string(t); }
std::string make_val(int opidx,int len){
	std::string v = "v" + std::to_string(opidx) + "|";
	if(len < 0) len = 0;
	size_t base = v.size();
	if((size_t)len > base) { v.resize(len); for(size_t j=base;j<v.size();j++) v[j] = (char)((opidx*31 + j*7) & 0xff); }
	return v;
}

// the model keeps a fingerprint of each value (length, hash, prefix): candidate states are copied often
std::string fpv(const std::string &v){ if(v.size() <= 40) return v; return v.substr(0,24) + "...(" + std::to_string(v.size()) + " bytes, fnv " + std::to_string(runner::fnv(v)) + ")"; }
const char *ENUM_OPS = "enumerated alphabet: store(k0|k1, {}|{t0}, +1s|+100s) x8, fetch k0|k1, rise t0|k0|k1, remove k0, tick 2s, stats";

J enum_op(int code){
	J o = J::obj();
	if(code < 8){ o["op"] = "store"; o["k"] = code & 1; J tr = J::arr(); if(code & 2) tr.push(0); o["trig"] = tr; o["dl"] = (code & 4) ? 100 : 1; o["vlen"] = 6; }
	else if(code < 10){ o["op"] = "fetch"; o["k"] = code - 8; }
	else if(code == 10){ o["op"] = "rise"; o["t"] = 0; }
	else if(code < 13){ o["op"] = "rise"; o["t"] = 100 + code - 11; }
	else if(code == 13){ o["op"] = "remove"; o["k"] = 0; }
	else if(code == 14){ o["op"] = "tick"; o["s"] = 2; }
	else { o["op"] = "stats"; }
	return o;
}

// an application whose context sits on the repository's dummy connection: cache().fetch_page()/store_page() and the request-wide
// trigger set (everything added or inherited while the page was built) need a context
struct PageApp : cppcms::application {
	std::string out; cppcms::service &s;
	PageApp(cppcms::service &srv) : cppcms::application(srv), s(srv) {}
	~PageApp(){ release_context(); }
	void new_request(){ std::map<std::string,std::string> env; env["HTTP_HOST"] = "sim.example"; env["SCRIPT_NAME"] = "/p"; env["PATH_INFO"] = "/"; env["REQUEST_METHOD"] = "GET";
		booster::shared_ptr<dummy_api> api(new dummy_api(s,env,out)); booster::shared_ptr<cppcms::http::context> cnt(new cppcms::http::context(api)); assign_context(cnt); response().io_mode(cppcms::http::response::normal); out.clear(); }
	std::string body(){ response().finalize(); size_t from = out.find("\r\n\r\n"); std::string r = from == std::string::npos ? out : out.substr(from+4); out.clear(); return r; }
};

// ---------------------------------------------------------------- two worker processes (real fork) on one process-shared cache
// The parent drives the plan; operations marked proc=1 are carried out by a forked child on ITS cache object (obtained from its copy of the service after the
// fork, as a pre-forked worker does) and the results come back over a pipe. Both must see one cache: the sequential model does not know who asked.
namespace twoproc {
	inline void wr(int fd,const void *p,size_t n){ const char *c = (const char*)p; while(n){ ssize_t k = ::write(fd,c,n); if(k <= 0){ if(k < 0 && errno == EINTR) continue; _exit(9); } c += k; n -= (size_t)k; } }
	inline bool rd(int fd,void *p,size_t n){ char *c = (char*)p; while(n){ ssize_t k = ::read(fd,c,n); if(k <= 0){ if(k < 0 && errno == EINTR) continue; return false; } c += k; n -= (size_t)k; } return true; }
	inline void ws(int fd,const std::string &v){ uint32_t n = (uint32_t)v.size(); wr(fd,&n,4); wr(fd,v.data(),n); }
	inline bool rs(int fd,std::string &v){ uint32_t n = 0; if(!rd(fd,&n,4)) return false; v.resize(n); return n == 0 || rd(fd,&v[0],n); }
	inline void wset(int fd,const std::set<std::string> &t){ uint32_t n = (uint32_t)t.size(); wr(fd,&n,4); for(auto &x:t) ws(fd,x); }
	inline bool rset(int fd,std::set<std::string> &t){ uint32_t n = 0; if(!rd(fd,&n,4)) return false; t.clear(); for(uint32_t i=0;i<n;i++){ std::string x; if(!rs(fd,x)) return false; t.insert(x); } return true; }
	struct Remote : base_cache {
		int to = -1, from = -1; bool dead = false;
		void fail(){ dead = true; }
		bool fetch(std::string const &key,std::string *a,std::set<std::string> *tags,time_t *to_out,uint64_t *gen) override {
			if(dead) return false; char op = 'F'; wr(to,&op,1); ws(to,key); char hit = 0; std::string v; std::set<std::string> t; int64_t dl = 0; uint64_t g = 0;
			if(!rd(from,&hit,1) || !rs(from,v) || !rset(from,t) || !rd(from,&dl,8) || !rd(from,&g,8)){ fail(); return false; }
			if(hit){ if(a) *a = v; if(tags) *tags = t; if(to_out) *to_out = (time_t)dl; if(gen) *gen = g; } return hit != 0; }
		void store(std::string const &key,std::string const &b,std::set<std::string> const &tr,time_t timeout,uint64_t const *) override { if(dead) return; char op = 'S'; wr(to,&op,1); ws(to,key); ws(to,b); wset(to,tr); int64_t dl = (int64_t)timeout; wr(to,&dl,8); char ack; if(!rd(from,&ack,1)) fail(); }
		void rise(std::string const &t) override { if(dead) return; char op = 'R'; wr(to,&op,1); ws(to,t); char ack; if(!rd(from,&ack,1)) fail(); }
		void remove(std::string const &k) override { if(dead) return; char op = 'D'; wr(to,&op,1); ws(to,k); char ack; if(!rd(from,&ack,1)) fail(); }
		void clear() override { if(dead) return; char op = 'C'; wr(to,&op,1); char ack; if(!rd(from,&ack,1)) fail(); }
		void stats(unsigned &k,unsigned &t) override { k = t = 0; if(dead) return; char op = 'N'; wr(to,&op,1); uint32_t a = 0,b = 0; if(!rd(from,&a,4) || !rd(from,&b,4)){ fail(); return; } k = a; t = b; }
		void tick(int64_t s){ if(dead) return; char op = 'T'; wr(to,&op,1); wr(to,&s,8); char ack; if(!rd(from,&ack,1)) fail(); }
		void quit(){ if(to >= 0){ char op = 'Q'; (void)!::write(to,&op,1); } }
		void add_ref() override {} bool del_ref() override { return false; }
	};
	// the child: serve requests on the cache of its own copy of the service until told to quit
	inline void serve(cppcms::service &srv,int from,int to){
		booster::intrusive_ptr<base_cache> cache = srv.cache_pool().get();
		for(;;){ char op; if(!rd(from,&op,1) || op == 'Q') _exit(0);
			if(op == 'F'){ std::string k; if(!rs(from,k)) _exit(8); std::string v; std::set<std::string> t; time_t dl = 0; uint64_t g = 0; char hit = cache->fetch(k,&v,&t,&dl,&g) ? 1 : 0; int64_t d = (int64_t)dl; wr(to,&hit,1); ws(to,v); wset(to,t); wr(to,&d,8); wr(to,&g,8); }
			else if(op == 'S'){ std::string k,v; std::set<std::string> t; int64_t dl; if(!rs(from,k) || !rs(from,v) || !rset(from,t) || !rd(from,&dl,8)) _exit(8); cache->store(k,v,t,(time_t)dl); char ack = 1; wr(to,&ack,1); }
			else if(op == 'R'){ std::string t; if(!rs(from,t)) _exit(8); cache->rise(t); char ack = 1; wr(to,&ack,1); }
			else if(op == 'D'){ std::string k; if(!rs(from,k)) _exit(8); cache->remove(k); char ack = 1; wr(to,&ack,1); }
			else if(op == 'C'){ cache->clear(); char ack = 1; wr(to,&ack,1); }
			else if(op == 'N'){ unsigned a = 0,b = 0; cache->stats(a,b); uint32_t x = a,y = b; wr(to,&x,4); wr(to,&y,4); }
			else if(op == 'T'){ int64_t sec; if(!rd(from,&sec,8)) _exit(8); simk::advance_us(sec*1000000); char ack = 1; wr(to,&ack,1); }
			else _exit(7); } }
}

struct E2 : Engine {
	long enum_total(const std::string &prop,bool thorough,int &len){ len = thorough ? 5 : 3; long n = 1; for(int i=0;i<len;i++) n *= 16; return prop == "C08" ? n*2 : n; }

	J generate(uint64_t seed,const std::string &prop,bool thorough) override {
		simk::Rng r; r.seed(seed);
		J p = J::obj(); p["engine"] = "E2"; p["prop"] = prop;
		long idx = runner_idx;
		int elen; long etot = enum_total(prop,thorough,elen);
		if(idx >= 0 && idx < etot){
			long code = idx; int lim = 0;
			if(prop == "C08"){ lim = 1 + (code & 1); code >>= 1; }
			p["mode"] = "enum"; p["backend"] = "thread"; p["iface"] = 0; p["limit"] = lim; p["fault_seed"] = 1;
			J ops = J::arr(); for(int i=0;i<elen;i++){ ops.push(enum_op(code & 15)); code >>= 4; }
		p["ops"] = ops; return p;
		}
		p["mode"] = "random"; p["coll"] = (int)(r.below(3) == 0);
		bool c08 = prop == "C08";
		bool process = r.below(100) < (c08 ? 25 : 12);
		bool iface = !process && !c08 && r.below(100) < 35;
		p["backend"] = process ? "process" : "thread"; p["iface"] = iface ? 1 : 0; bool ctx = iface && r.below(2); p["ctx"] = ctx ? 1 : 0;   // ctx: cache_interface of a request context, with whole pages (fetch_page / store_page)
		int nkeys = 2 + r.below(5); if(r.below(8) == 0) nkeys = 12 + r.below(20);
		int ntrig = r.below(6);
		int limit;
		if(c08){ limit = 1 + r.below(8); if(nkeys <= limit) nkeys = limit + 1 + r.below(4); }
		else { unsigned x = r.below(10); limit = x < 5 ? 0 : x < 7 ? 50 + r.below(1000) : x == 7 ? 1 : x == 8 ? 2 : 3 + r.below(6); }
		p["limit"] = limit;
		int mem_kb = 512 << r.below(4);
		bool squeeze = c08 && process && r.below(3) == 0;   /* squeeze plans: a small segment and values of a twelfth to a fifth of it - a handful of entries fills the segment, most stores have to make room (often for more than one entry) among live and expired entries */
		if(squeeze){ mem_kb = 512; p["squeeze"] = 1; limit = 8 + (int)r.below(8); p["limit"] = limit; nkeys = 6 + (int)r.below(6); }
		if(process){ p["mem_kb"] = mem_kb; }
		bool fork2 = process && !squeeze && r.below(4) == 0; if(fork2) p["fork2"] = 1;   // two worker processes (real fork after the service was constructed) share the cache; small values only (no memory pressure)
		p["fault_seed"] = (unsigned long long)(r.next() >> 8);
		int nops = thorough ? 10 + r.below(400) : 8 + r.below(120);
		if(process && !squeeze && r.below(3) == 0) nops = thorough ? 2000 + r.below(8000) : 300 + r.below(900);   // long fill/clear cycles
		if(squeeze) nops = 30 + (int)r.below(120);
		bool bigvals = process && r.below(2) && nops <= 1200;   // long fill/clear cycles use moderate values (cost), short runs the huge ones
		{ J kp = J::arr(); for(int i=0;i<nkeys && i<64;i++){ unsigned x = r.below(10); int pad = 0; if(x == 0) pad = 16 + r.below(40); else if(process && x == 1) pad = mem_kb*1024/8 + r.below(mem_kb*1024/6); else if(process && x == 2) pad = 1000 + r.below(30000); if(nops > 1200 && pad > 30000) pad = 1000 + r.below(30000); kp.push(pad); } p["key_pad"] = kp; }   // the long cycles use moderate keys (every operation copies and hashes its key: 8000 operations on an 800 KB key made a 40 s run, a real-time "hang" of the harness in a soak run)
		J ops = J::arr(); bool gen_page_open = false;
		auto pick_trigs = [&](J &o){ J tr = J::arr(); int n = ntrig ? r.below(3) : 0; for(int i=0;i<n;i++) tr.push((int)r.below(ntrig)); if(r.below(6) == 0) tr.push(100 + (int)r.below(nkeys)); if(r.below(50)==0) for(int i=0;i<30;i++) tr.push(200+i); o["trig"] = tr; };
		auto pick_dl = [&]()->int { unsigned x = r.below(10); return x < 5 ? 1 + (int)r.below(8) : x < 8 ? 50 + (int)r.below(1000) : x == 8 ? -(int)r.below(3) : 0; };
		auto pick_vlen = [&]()->int { if(squeeze && r.below(4)) return mem_kb*1024/12 + (int)r.below(mem_kb*1024/8); if(bigvals){ unsigned x = r.below(20); if(x == 0) return mem_kb*1024/2 + r.below(mem_kb*1024); if(x < 4) return mem_kb*1024/40 + r.below(mem_kb*1024/8); if(x < 10) return 1000 + r.below(20000); } unsigned x = r.below(10); return x == 0 ? 0 : x < 8 ? 4 + r.below(40) : 200 + r.below(5000); };
		for(int i=0;i<nops;i++){
			J o = J::obj(); unsigned x = r.below(100);
			if(ctx && (gen_page_open ? r.below(100) < 30 : r.below(100) < 12)){   // whole pages: ask for one; once a request has missed its page it builds and stores it a few operations later
				if(gen_page_open){ o["op"] = "pstore"; int d = pick_dl(); o["dl"] = r.below(3)==0 ? -1 : (d < 0 ? 0 : d); o["vlen"] = 1 + (int)r.below(300); gen_page_open = false; }
				else { o["op"] = "pfetch"; o["k"] = (int)r.below(std::min(nkeys,2)); gen_page_open = true; if(r.below(3) == 0) o["cont"] = 1; }   /* cont: the request has already consulted the cache (frames, data, triggers of its own) when it asks for the whole page */
				ops.push(o); continue; }
			if(iface){
				if(x < 22){ o["op"] = "fstore"; o["k"] = (int)r.below(nkeys); pick_trigs(o); int d = pick_dl(); o["dl"] = r.below(5)==0 ? -1 : (d < 0 ? 0 : d); o["vlen"] = pick_vlen(); o["nt"] = r.below(5) == 0; }
				else if(x < 48){ o["op"] = "ffetch"; o["k"] = (int)r.below(nkeys); o["nt"] = r.below(6) == 0; }
				else if(x < 56){ o["op"] = "rec_push"; }
				else if(x < 64){ o["op"] = "rec_store"; o["k"] = (int)r.below(nkeys); int d = pick_dl(); o["dl"] = r.below(5)==0 ? -1 : (d < 0 ? 0 : d); o["vlen"] = pick_vlen(); o["nt"] = r.below(8) == 0; }
				else if(x < 67){ o["op"] = "rec_drop"; }
				else if(x < 72){ o["op"] = "addtrig"; o["t"] = ntrig ? (int)r.below(ntrig) : 100; }
				else if(x < 75){ o["op"] = "reset"; }
				else if(x < 77){ o["op"] = "new_req"; }
				else if(x < 80 && !ctx){ o["op"] = "new_req"; }
				else if(x < 80){ if(r.below(2)){ o["op"] = "pfetch"; o["k"] = (int)r.below(nkeys); if(r.below(3) == 0) o["cont"] = 1; } else { o["op"] = "pstore"; int d = pick_dl(); o["dl"] = r.below(5)==0 ? -1 : (d < 0 ? 0 : d); o["vlen"] = 1 + (int)r.below(300); } }
				else if(x < 87){ o["op"] = "rise"; o["t"] = r.below(3) == 0 ? 100 + (int)r.below(nkeys) : (ntrig ? (int)r.below(ntrig) : 100); }
				else if(x < 94){ o["op"] = "tick"; o["s"] = 1 + (int)r.below(6); }
				else if(x < 95){ o["op"] = "clear"; }
				else if(x < 97){ o["op"] = "stats"; }
				else { o["op"] = "probe"; o["k"] = (int)r.below(nkeys); }
			} else {
				if(x < 34){ o["op"] = "store"; o["k"] = (int)r.below(nkeys); pick_trigs(o); o["dl"] = pick_dl(); o["vlen"] = pick_vlen(); }
				else if(x < 68){ o["op"] = "fetch"; o["k"] = (int)r.below(nkeys); o["how"] = (int)r.below(4); }
				else if(x < 77){ o["op"] = "rise"; o["t"] = r.below(3) == 0 ? 100 + (int)r.below(nkeys) : (ntrig ? (int)r.below(ntrig) : 100); }
				else if(x < 83){ o["op"] = "remove"; o["k"] = (int)r.below(nkeys); }
				else if(x < 92){ o["op"] = "tick"; o["s"] = r.below(8) == 0 ? 40 + (int)r.below(2000) : 1 + (int)r.below(5); }
				else if(x < (process ? 94u : 93u)){ o["op"] = "clear"; }
				else if(process && x < 96 && r.below(3) == 0){ o["op"] = "storm"; o["n"] = 5 + (int)r.below(60); unsigned y = r.below(4); o["klen"] = y == 0 ? mem_kb*1024/5 : y == 1 ? mem_kb*1024/6 + (int)r.below(4000) : y == 2 ? 20 + (int)r.below(200) : mem_kb*1024/9; }
				else { o["op"] = "stats"; }
			}
			ops.push(o);
		}
		// one store in six repeats the exact bytes of an earlier store of the plan (usually with other triggers and another deadline)
		{ std::vector<size_t> st; for(size_t i=0;i<ops.a.size();i++){ std::string k = ops.a[i].gets("op"); if(k != "store" && k != "fstore" && k != "rec_store") continue; if(!st.empty() && r.below(6) == 0){ size_t j = st[r.below(st.size())]; ops.a[i]["vseed"] = ops.a[j].has("vseed") ? ops.a[j].geti("vseed") : (int64_t)j; ops.a[i]["vlen"] = ops.a[j].geti("vlen"); if(r.below(2)) ops.a[i]["k"] = ops.a[j].geti("k"); } st.push_back(i); } }
		if(fork2){ for(auto &o:ops.a){ std::string k = o.gets("op"); if(k == "storm") o["op"] = "stats"; if(o.has("vlen") && o.geti("vlen") > 200) o["vlen"] = (int)(o.geti("vlen") % 200); o["proc"] = (int)r.below(2); } p["key_pad"] = J::arr(); }
		p["ops"] = ops;
		return p;
	}
	bool fork_per_run(const J &plan) override { return plan.gets("backend") == "process"; }

	// ------------------------------------------------------------ execution
	struct Ctx {
		RunResult *res; booster::intrusive_ptr<base_cache> cache; bool process = false; bool c08 = false;
		// the model is a SET of possible states: exactly one for the thread back-end; for the process-shared back-end
		// memory pressure may legally evict more / clear / drop, so successors fan out and observations filter them
		std::vector<CacheModel> cands; CacheModel &M(){ return cands[0]; } bool inconclusive = false;
		std::map<std::string,int64_t> cnt; int opi = 0; bool invalidated = false, hit_after_inval = false; bool evicted = false;
		size_t baseline_avail = 0; bool have_baseline = false; size_t max_block0 = 0;   // largest block the empty shared segment can give: a value above it can never be kept
		void fail(const std::string &cls,const std::string &m){ res->fail(cls,"op#" + std::to_string(opi) + ": " + m); }
		int64_t now(){ return simk::now_us() / 1000000; }
	};
	static std::string show(const std::set<std::string> &s){ std::string r = "{"; for(auto &x:s){ if(r.size()>1) r += ","; r += x; } return r + "}"; }
	static std::string showv(const std::string &v){ return fpv(v); }

	static void check_stats(Ctx &c){
		unsigned k=0,t=0,mk=0,mt=0; c.cache->stats(k,t);
		std::vector<CacheModel> keep; for(auto &m:c.cands){ m.stats(mk,mt); if(mk == k && mt == t) keep.push_back(m); }
		if(keep.empty()){ c.M().stats(mk,mt); c.fail("stats-mismatch","stats keys=" + std::to_string(k) + " triggers=" + std::to_string(t) + " model keys=" + std::to_string(mk) + " triggers=" + std::to_string(mt) + (c.cands.size() > 1 ? " (and no other legal outcome of memory pressure matches)" : "")); return; }
		c.cands.swap(keep);
		if(c.M().limit > 0 && k > c.M().limit) c.fail("limit-exceeded","cache holds " + std::to_string(k) + " entries, limit " + std::to_string(c.M().limit));
	}
	static bool fetch_agrees(Ctx &c,CacheModel &m,const std::string &key,int how,bool hit,const std::string &v,const std::set<std::string> &tr,time_t dl,std::string *why,std::string *cls){
		const CacheEntry *e = nullptr; auto it = m.m.find(key); bool was_expired = it != m.m.end() && it->second.deadline < c.now();
		bool mhit = m.fetch(key,c.now(),&e);
		if(hit != mhit){ *cls = hit ? "stale-hit" : "lost-entry"; *why = std::string("fetch(") + key + ") " + (hit ? "hit value " + showv(v) : "missed") + " but model says " + (mhit ? "hit " + showv(e->val) : (was_expired ? "miss (expired)" : "miss (absent)")); return false; }
		if(!hit) return true;
		if((how & 3) != 3 && fpv(v) != e->val){ *cls = "wrong-value"; *why = "fetch(" + key + ") returned " + showv(v) + " expected " + showv(e->val); return false; }
		if(((how & 3) == 0 || (how & 3) == 1) && tr != e->trig){ *cls = "wrong-triggers"; *why = "fetch(" + key + ") triggers " + show(tr) + " expected " + show(e->trig); return false; }
		if(((how & 3) == 0 || (how & 3) == 2) && (int64_t)dl != e->deadline){ *cls = "wrong-deadline"; *why = "fetch(" + key + ") deadline " + std::to_string((long)dl) + " expected " + std::to_string((long)e->deadline); return false; }
		return true;
	}
	static void do_fetch(Ctx &c,const std::string &key,int how){
		std::string v; std::set<std::string> tr; time_t dl = 0; uint64_t gen = 0; bool hit;
		switch(how & 3){
		case 0: hit = c.cache->fetch(key,&v,&tr,&dl,&gen); break;
		case 1: hit = c.cache->fetch(key,v,&tr); break;
		case 2: hit = c.cache->fetch(key,&v,0,&dl,0); break;
		default: hit = c.cache->fetch(key,0,0,0,0); break;
		}
		{ auto it = c.M().m.find(key); if(it != c.M().m.end() && it->second.deadline < c.now()) c.cnt["fetch_miss_expired"]++; }
		std::vector<CacheModel> keep; std::string why,cls,why0,cls0;
		for(size_t i=0;i<c.cands.size();i++){ if(fetch_agrees(c,c.cands[i],key,how,hit,v,tr,dl,&why,&cls)) keep.push_back(c.cands[i]); else if(why0.empty()){ why0 = why; cls0 = cls; } }
		if(keep.empty()){
			std::string dump;
			if(getenv("E2_DEBUG")){ dump = "\nREAL:"; for(int i=0;i<16;i++){ std::string vv; time_t d=0; if(c.cache->fetch(key_name(i),&vv,0,&d,0)) dump += " " + key_name(i) + "(dl+" + std::to_string((long)(d-c.now())) + ")"; }
				for(auto &m:c.cands){ dump += "\nCAND:"; for(auto &kv:m.m) dump += " " + kv.first + "(dl+" + std::to_string((long)(kv.second.deadline-c.now())) + ",lru" + std::to_string(kv.second.lru) + ",ins" + std::to_string(kv.second.ins) + ")"; } }
			c.fail(cls0,why0 + (c.cands.size() > 1 ? " (" + std::to_string(c.cands.size()) + " candidate states, none agrees)" : "") + dump); return; }
		c.cands.swap(keep);
		c.cnt[hit ? "fetch_hit" : "fetch_miss"]++;
		if(hit && c.invalidated) c.hit_after_inval = true;
	}
	static void model_insert(CacheModel &m,const std::string &key,const std::string &val,const std::set<std::string> &tr,int64_t dl){
		CacheEntry e; e.val = fpv(val); e.trig = tr; e.trig.insert(key); e.deadline = dl; e.lru = ++m.stamp; e.ins = ++m.ins; m.m[key] = e; }
	// process-shared back-end: every outcome memory pressure may legally produce becomes a candidate state
	static void store_process(Ctx &c,const std::string &key,const std::string &val,const std::set<std::string> &tr,int64_t dl){
		std::vector<CacheModel> before = c.cands;
		c.cache->store(key,val,tr,dl);
		unsigned k=0,t=0,mk=0,mt=0; c.cache->stats(k,t);
		std::vector<CacheModel> next;
		{ CacheModel n = before[0]; n.store(key,fpv(val),tr,dl,c.now()); n.stats(mk,mt); if(mk != k || mt != t) c.cnt["memory_pressure_events"]++; }
		auto consider = [&](const CacheModel &m,const char *tag){ m.stats(mk,mt); if(mk == k && mt == t){ for(auto &x:next) if(x == m) return; next.push_back(m); if(tag) c.cnt[tag]++; } };
		// a value larger than the largest block of the empty segment can never be copied: the store gives up before it touches anything but its own key -
		// the superseded entry goes, every other entry stays (no eviction, no clear)
		bool hopeless = c.max_block0 && val.size() > c.max_block0; if(hopeless) c.cnt["hopeless_stores"]++;
		for(auto &b:before){
			CacheModel cand = b; cand.m.erase(key);
			// the value could not be copied, or the entry count is beyond the size cap: old entry gone, nothing stored
			consider(cand,nullptr);
			if(hopeless) continue;
			while(cand.limit > 0 && cand.m.size() >= cand.limit && cand.evict_one(c.now())) {}
			bool first = true;
			for(;;){ CacheModel with = cand; model_insert(with,key,val,tr,dl); consider(with,nullptr); first = false; if(!cand.evict_one(c.now())) break; }
			CacheModel empty = b; empty.clear(); consider(empty,nullptr);
		}
		if(next.empty()){
			// diagnose the one illegal outcome we know: the store was dropped and the superseded value is still served
			for(auto &b:before){ b.stats(mk,mt); auto it = b.m.find(key);
				if(mk == k && mt == t && it != b.m.end()){ std::string got; bool hit = c.cache->fetch(key,got,0);
					if(hit && fpv(got) == it->second.val){ c.fail("stale-after-failed-store","store(" + key + ", " + std::to_string(val.size()) + " bytes) could not allocate and left the superseded value " + showv(got) + " readable"); return; } } }
			c.M().stats(mk,mt);
			if(hopeless){ c.fail("unkeepable-store-disturbed-other-entries","store(" + key + ", " + std::to_string(val.size()) + " bytes) can never fit into the segment (largest block " + std::to_string(c.max_block0) + "): only its own key may go, but keys=" + std::to_string(k) + " triggers=" + std::to_string(t) + " (before: keys=" + std::to_string(mk) + " triggers=" + std::to_string(mt) + ")"); return; }
			c.fail("stats-mismatch","after store(" + key + ", " + std::to_string(val.size()) + " bytes): keys=" + std::to_string(k) + " triggers=" + std::to_string(t) + " matches no legal outcome (model before: keys=" + std::to_string(mk) + " triggers=" + std::to_string(mt) + ")"); return;
		}
		c.cands.swap(next);
		// several legal outcomes share these stats: look at the key just stored (LRU-neutral: it is at the front anyway)
		if(c.cands.size() > 1){ c.cnt["disambiguation_probes"]++; do_fetch(c,key,0); }
		if(c.cands.size() > 64){ c.inconclusive = true; }
	}
	static void do_store(Ctx &c,const std::string &key,const std::string &val,const std::set<std::string> &tr,int64_t dl){
		if(c.M().m.count(key)) c.cnt["restore_existing"]++;
		for(auto &kv:c.M().m) if(tr.count(kv.first) && kv.first != key) { c.cnt["key_as_trigger"]++; break; }
		if(c.M().limit > 0 && c.M().m.size() - c.M().m.count(key) >= c.M().limit){
			CacheModel tmp = c.M(); tmp.m.erase(key); auto best = tmp.m.begin(); for(auto it=tmp.m.begin();it!=tmp.m.end();++it) if(it->second.deadline < best->second.deadline) best = it;
			c.cnt[best->second.deadline < c.now() ? "evict_expired" : "evict_lru"]++; c.evicted = true;
		}
		if(c.process) store_process(c,key,val,tr,dl);
		else { c.cache->store(key,val,tr,dl); c.M().store(key,fpv(val),tr,dl,c.now()); }
		if(c.cands.size() > 1) c.cnt["ambiguous_states"]++;
		c.cnt["store"]++;
	}
	static void do_rise(Ctx &c,const std::string &t){
		int n = 0; for(auto &kv:c.M().m) if(kv.second.trig.count(t)) n++;
		if(n >= 2) c.cnt["rise_multi"]++; if(n) { c.cnt["rise_hit"]++; c.invalidated = true; }
		c.cache->rise(t); for(auto &m:c.cands) m.rise(t);
	}
	static void do_clear(Ctx &c){
		c.cache->clear(); for(auto &m:c.cands) m.clear(); c.cands.resize(1); c.cnt["clear"]++; c.invalidated = true;
		if(c.process){
			// total free bytes: every free page costs a 16-byte header, and where the surviving allocations (cache object, bucket
			// arrays) end up after failed allocations changes the page structure - hence a slack of 64 headers; a real leak
			// (a node or string that is never given back) accumulates beyond it
			size_t av = cppcms::impl::process_settings::process_memory->available();
			if(!c.have_baseline){ c.baseline_avail = av; c.have_baseline = true; }
			// an empty cache must not consider itself short of memory (the cache evicts while the largest free block is below a tenth of the segment): after clear() the
			// freed blocks have coalesced again - what stays allocated (tables of a few KB) cannot split the segment that far
			{ size_t mx = cppcms::impl::process_settings::process_memory->max_available(), sz = cppcms::impl::process_settings::process_memory->size(); c.cnt["post_clear_block_checks"]++;
			  if(mx < sz / 10){ c.fail("empty-cache-short-of-memory","after clear() the largest free block the allocator reports is " + std::to_string(mx) + " bytes of a " + std::to_string(sz) + " byte segment (" + std::to_string(av) + " bytes are free in total): every store would evict"); return; } }
			if(!c.have_baseline){} else { c.cnt["leak_checks"]++; if(av + 1024 < c.baseline_avail) c.fail("shared-memory-leak","after clear() " + std::to_string(av) + " bytes of shared memory are free but " + std::to_string(c.baseline_avail) + " were free after the first clear (" + std::to_string(c.baseline_avail - av) + " bytes not given back)"); }
		}
	}
	static void final_sweep(Ctx &c,int nkeys_hint){
		std::set<std::string> keys; for(auto &m:c.cands) for(auto &kv:m.m) keys.insert(kv.first); for(int i=0;i<nkeys_hint;i++) keys.insert(key_name(i));
		for(auto &k:keys){ if(!c.res->ok) return; do_fetch(c,k,0); }
		if(c.res->ok) check_stats(c);
	}

	/* process-shared cache: taking every entry out one by one (remove, no clear()) gives all their memory back as well - names of keys and triggers included */
	static void final_drain(Ctx &c,int nkeys_hint){
		if(!c.process || !c.have_baseline || !c.res->ok) return;
		std::set<std::string> keys; for(auto &m:c.cands) for(auto &kv:m.m) keys.insert(kv.first); for(int i=0;i<nkeys_hint;i++) keys.insert(key_name(i));
		for(auto &k:keys) c.cache->remove(k);
		unsigned kk = 0,tt = 0; c.cache->stats(kk,tt); if(kk || tt) return;   /* what stats() has to report is checked op by op elsewhere */
		size_t av = cppcms::impl::process_settings::process_memory->available(); c.cnt["drain_leak_checks"]++;
		/* unlike clear(), remove() leaves the two hash tables (keys, triggers) as large as they have grown: at most 2*(1+entries) buckets of 16 bytes each, rounded up by the buddy allocator */
		size_t slack = 1024; { size_t bytes = 32 * (1 + keys.size() + 16) + 16, p2 = 64; while(p2 < bytes) p2 *= 2; slack += 2 * p2; }
		if(av + slack < c.baseline_avail) c.fail("shared-memory-leak","after every entry was removed one by one (stats() reports an empty cache) " + std::to_string(av) + " bytes of shared memory are free, " + std::to_string(c.baseline_avail) + " were free when the cache was created (" + std::to_string(c.baseline_avail - av) + " bytes not given back, the grown hash tables account for at most " + std::to_string(slack) + ")");
	}

	RunResult run(const J &plan) override {
		RunResult res; Ctx c; c.res = &res;
		simk::Params sp; sp.sched_seed = 1; sp.fault_seed = (uint64_t)plan.geti("fault_seed",1); sp.tick_us = 0; sp.text_trace = plan.geti("text_trace");
		simk::begin(sp); simk::lock_audit(false);
		c.process = plan.gets("backend") == "process"; c.c08 = plan.gets("prop") == "C08";
		{ memset(g_key_pad,0,sizeof(g_key_pad)); const J &kp = plan.get("key_pad"); for(size_t i=0;i<kp.size() && i<64;i++) g_key_pad[i] = (int)std::max<int64_t>(0,std::min<int64_t>(kp.a[i].as_int(),4<<20)); }
		g_colliding = plan.geti("coll") != 0;
		unsigned limit = (unsigned)std::max<int64_t>(0,plan.geti("limit")); c.cands.resize(1); c.M().limit = limit;
		bool iface = plan.geti("iface") && !c.process; bool fork2 = c.process && plan.geti("fork2"); twoproc::Remote remote; pid_t worker = -1;
		const J &ops = plan.get("ops");
		int maxk = 0;
		{
			std::unique_ptr<cppcms::service> srv; std::unique_ptr<cppcms::cache_interface> ci_own; cppcms::cache_interface *ci = nullptr; std::unique_ptr<PageApp> app; bool ctx = plan.geti("ctx"); bool page_open = false; std::string page_key;
			std::vector<std::unique_ptr<cppcms::triggers_recorder>> recs; std::vector<std::set<std::string>> mrecs; std::set<std::string> mtrig;
			if(iface){
				cppcms::json::value v; v["cache"]["backend"] = "thread_shared"; v["cache"]["limit"] = (int)limit;
				v["service"]["api"] = "http"; v["service"]["port"] = 8080; v["service"]["disable_global_exit_handling"] = true; v["service"]["worker_threads"] = 1;
				v["localization"]["locales"][0] = "C"; v["localization"]["backend"] = "std"; v["logging"]["stderr"] = false;
				srv.reset(new cppcms::service(v)); c.cache = srv->cache_pool().get(); if(ctx){ app.reset(new PageApp(*srv)); app->new_request(); ci = &app->cache(); } else { ci_own.reset(new cppcms::cache_interface(*srv)); ci = ci_own.get(); }
			}
			else if(c.process && fork2){
				// the service (and with it the cache pool) exists before the workers are forked, the cache is first used after the fork - the order of a pre-forking deployment
				cppcms::json::value v; v["cache"]["backend"] = "process_shared"; v["cache"]["memory"] = (int)std::max<int64_t>(512,plan.geti("mem_kb",512)); v["cache"]["limit"] = (int)limit;
				v["service"]["api"] = "http"; v["service"]["port"] = 8080; v["service"]["disable_global_exit_handling"] = true; v["service"]["worker_threads"] = 1;
				v["localization"]["locales"][0] = "C"; v["localization"]["backend"] = "std"; v["logging"]["stderr"] = false;
				srv.reset(new cppcms::service(v));
				int p2c[2],c2p[2]; if(pipe2(p2c,0) != 0 || pipe2(c2p,0) != 0){ res.fail("machinery","pipe2 failed"); simk::end(); return res; }   // real pipes (pipe2 is not intercepted): the two processes have separate simulators
				fflush(stdout); fflush(stderr); worker = fork();
				if(worker == 0){ ::close(p2c[1]); ::close(c2p[0]); twoproc::serve(*srv,p2c[0],c2p[1]); _exit(0); }
				::close(p2c[0]); ::close(c2p[1]); remote.to = p2c[1]; remote.from = c2p[0]; c.cnt["two_process_runs"]++;
				c.cache = srv->cache_pool().get(); c.cache->clear(); }
			else if(c.process){ size_t mem = (size_t)std::max<int64_t>(512,plan.geti("mem_kb",512)) * 1024; c.cache = cppcms::impl::process_cache_factory(mem,limit); simk::lock_audit(true); do_clear(c); c.max_block0 = cppcms::impl::process_settings::process_memory->max_available(); }
			else c.cache = cppcms::impl::thread_cache_factory(limit);
			auto madd = [&](const std::string &t){ for(auto &s:mrecs) s.insert(t); mtrig.insert(t); };
			for(size_t i=0;i<ops.size() && res.ok;i++){
				const J &o = ops.a[i]; c.opi = (int)i; std::string op = o.gets("op");
				int k = (int)(((o.geti("k") % 1000) + 1000) % 1000); if(k > maxk) maxk = k; std::string key = key_name(k);
				auto trigs = [&]{ std::set<std::string> tr; const J &ta = o.get("trig"); for(size_t j=0;j<ta.size();j++) tr.insert(trig_name((int)(((ta.a[j].as_int() % 1000)+1000)%1000))); return tr; };
				std::string tname = trig_name((int)(((o.geti("t") % 1000)+1000)%1000));
				booster::intrusive_ptr<base_cache> local_cache = c.cache; bool remote_op = fork2 && o.geti("proc") != 0; if(remote_op){ c.cache = &remote; c.cnt["ops_by_second_process"]++; }
				struct Back { Ctx &c; booster::intrusive_ptr<base_cache> l; ~Back(){ c.cache = l; } } back{c,local_cache};
				int vlen = (int)std::min<int64_t>(o.geti("vlen"),64*1024*1024); int vseed = o.has("vseed") ? (int)o.geti("vseed") : (int)i;   // vseed: the very bytes of an earlier store, again (under other triggers / another deadline)
				if(op == "store") do_store(c,key,make_val(vseed,vlen),trigs(),c.now() + o.geti("dl"));
				else if(op == "fetch") do_fetch(c,key,(int)o.geti("how"));
				else if(op == "rise") do_rise(c,tname);
				else if(op == "remove"){ if(c.M().m.count(key)) { c.cnt["remove_hit"]++; c.invalidated = true; } c.cache->remove(key); for(auto &m:c.cands) m.remove(key); }
				else if(op == "clear") do_clear(c);
				else if(op == "tick"){ int64_t s = std::max<int64_t>(0,std::min<int64_t>(o.geti("s"),100000)); simk::advance_us(s*1000000); if(fork2) remote.tick(s); c.cnt["tick"]++; for(auto &kv:c.M().m) if(kv.second.deadline < c.now()) { c.invalidated = true; break; } }
				else if(op == "stats") { c.cnt["stats"]++; }
				else if(op == "storm" && c.process){ // a burst of stores whose long keys exhaust the segment while a node is being built, then a clear
					int n = (int)std::max<int64_t>(1,std::min<int64_t>(o.geti("n",20),300)); size_t klen = (size_t)std::max<int64_t>(16,std::min<int64_t>(o.geti("klen",100000),4<<20));
					for(int q=0;q<n && res.ok;q++){ std::string lk((size_t)klen,(char)('a' + q % 26)); lk += std::to_string(q); std::set<std::string> tr; if(q % 3 == 0) tr.insert(std::string(klen/2,'t')); c.cache->store(lk,make_val((int)i,(int)(q % 7) * 100),tr,c.now() + 50); if(q % 5 == 4) c.cache->clear(); }
					c.cnt["alloc_storms"]++; do_clear(c); }
				else if(iface){
					int dl = (int)o.geti("dl"); bool nt = o.geti("nt");
					int64_t deadline = dl < 0 ? (int64_t)(0x7FFFFFFFFFFFFFFFULL - 3600*24) : c.now() + dl;
					if(op == "fstore"){ std::set<std::string> tr = trigs(); std::string val = make_val(vseed,vlen); ci->store_frame(key,val,tr,dl,nt); if(!nt){ for(auto &t:tr) madd(t); madd(key); } c.M().store(key,fpv(val),tr,deadline,c.now()); c.cnt["fstore"]++; }
					else if(op == "ffetch"){
						std::string got; bool hit = ci->fetch_frame(key,got,nt); const CacheEntry *e = nullptr; bool mhit = c.M().fetch(key,c.now(),&e);
						if(hit != mhit) c.fail(hit ? "stale-hit" : "lost-entry","fetch_frame(" + key + ") " + (hit ? "hit " + showv(got) : "missed") + ", model " + (mhit ? "hit" : "miss"));
						else if(hit){ if(fpv(got) != e->val) c.fail("wrong-value","fetch_frame(" + key + ") returned " + showv(got) + " expected " + showv(e->val)); if(!nt) for(auto &t:e->trig) madd(t); c.cnt["ffetch_hit"]++; if(!mrecs.empty() && !nt) c.cnt["inherit_into_recorder"]++; }
					}
					else if(op == "rec_push"){ if(recs.size() < 6){ recs.emplace_back(new cppcms::triggers_recorder(*ci)); mrecs.emplace_back(); c.cnt["rec_push"]++; } }
					else if(op == "rec_store"){
						if(!recs.empty()){
							std::set<std::string> tr = recs.back()->detach(); std::set<std::string> mtr = mrecs.back(); recs.pop_back(); mrecs.pop_back();
							if(tr != mtr) c.fail("recorder-mismatch","detached recorder holds " + show(tr) + " expected " + show(mtr));
							std::string val = make_val(vseed,vlen); ci->store_frame(key,val,tr,dl,nt); if(!nt){ for(auto &t:tr) madd(t); madd(key); }
							c.M().store(key,fpv(val),mtr,deadline,c.now()); c.cnt["rec_store"]++; if(mtr.size() >= 2) c.cnt["rec_store_inherited"]++;
						}
					}
					else if(op == "rec_drop"){ if(!recs.empty()){ size_t j = (size_t)(o.geti("j") % recs.size()); recs.erase(recs.begin()+j); mrecs.erase(mrecs.begin()+j); } }
					else if(op == "addtrig"){ ci->add_trigger(tname); madd(tname); }
					else if(op == "reset"){ ci->reset(); mtrig.clear(); }
					else if(op == "new_req" || ((op == "pfetch" || op == "pstore") && !ctx)){ recs.clear(); mrecs.clear(); mtrig.clear(); page_open = false; if(ctx){ app->new_request(); ci = &app->cache(); } else { ci_own.reset(new cppcms::cache_interface(*srv)); ci = ci_own.get(); } }
					else if(op == "pfetch"){   // a new request asks for a whole page
						if(o.geti("cont") && !page_open && recs.empty()){ c.cnt["pfetch_after_other_cache_use"]++; if(!mtrig.empty()) c.cnt["pfetch_with_triggers_recorded_before"]++; }   /* same request goes on: what it has recorded so far stays recorded */
						else { recs.clear(); mrecs.clear(); mtrig.clear(); app->new_request(); ci = &app->cache(); }
						std::string pk = "_U:" + key;
						bool hit = ci->fetch_page(key); const CacheEntry *e = nullptr; bool mhit = c.M().fetch(pk,c.now(),&e); c.cnt["pfetch"]++;
						if(hit != mhit) c.fail(hit ? "stale-hit" : "lost-entry","fetch_page(" + key + ") " + std::string(hit ? "hit" : "missed") + ", model " + (mhit ? "hit" : "miss"));
						else if(hit){ std::string got = app->body(); if(fpv(got) != e->val) c.fail("wrong-value","fetch_page(" + key + ") delivered " + showv(got) + " expected " + showv(e->val)); c.cnt["pfetch_hit"]++; recs.clear(); mrecs.clear(); mtrig.clear(); app->new_request(); ci = &app->cache(); page_open = false; }
						else { page_open = true; page_key = key; } }
					else if(op == "pstore"){   // the request that missed its page has built it (around whatever frames it fetched or stored) and stores it
						if(page_open){ std::string val = make_val((int)i,(int)std::max<int64_t>(1,std::min<int64_t>(vlen,2000))); app->response().out() << val; ci->store_page(page_key,dl);
							std::set<std::string> tr = mtrig; tr.insert(page_key); c.M().store("_U:" + page_key,fpv(val),tr,deadline,c.now()); c.cnt["pstore"]++; if(tr.size() >= 2) c.cnt["pstore_with_inherited_triggers"]++;
							std::string sent = app->body(); if(sent != val) c.fail("wrong-value","the page written by the application is not what the connection received (" + showv(sent) + ")");
							recs.clear(); mrecs.clear(); mtrig.clear(); page_open = false; app->new_request(); ci = &app->cache(); } }
					else if(op == "probe"){ do_fetch(c,key,0); }
				}
				if(res.ok) check_stats(c);
				if(getenv("E2_DEBUG2")){ unsigned kk=0,tt=0; c.cache->stats(kk,tt); fprintf(stderr,"op#%zu %s k=%d -> keys=%u trig=%u cands=%zu avail=%zu\n",i,op.c_str(),k,kk,tt,c.cands.size(),c.process?cppcms::impl::process_settings::process_memory->max_available():0); }
				if(c.inconclusive) break;
			}
			if(c.process && res.ok){   /* where do the locks of the process-shared cache live? a lock in private memory is a lock of its own in every worker process after fork() */
				std::vector<const void*> locks = simk::audited_locks(); simk::lock_audit(false); c.cnt["process_shared_locks_located"] += (int64_t)locks.size();
				if(!locks.empty()){ std::ifstream maps("/proc/self/maps"); std::string line; std::vector<std::pair<std::pair<uintptr_t,uintptr_t>,bool>> rg; while(std::getline(maps,line)){ unsigned long a = 0,b = 0; char perms[8] = {0}; if(sscanf(line.c_str(),"%lx-%lx %7s",&a,&b,perms) == 3) rg.push_back({{a,b},perms[3] == 's'}); }
					for(const void *l:locks){ uintptr_t x = (uintptr_t)l; bool found = false,shared = false; for(auto &g:rg) if(x >= g.first.first && x < g.first.second){ found = true; shared = g.second; }
						if(found && !shared){ char b[64]; snprintf(b,sizeof(b),"%p",l); res.fail("process-shared-lock-in-private-memory",std::string("the process-shared cache locks a mutex / rwlock at ") + b + " which lies in a private mapping: after fork() every worker process locks a copy of its own and nothing orders their operations on the shared segment"); break; } } } }
			if(res.ok && !c.inconclusive) final_sweep(c,std::min(maxk+1,64));
			if(res.ok && !c.inconclusive) final_drain(c,std::min(maxk+1,64));
			if(fork2){ if(remote.dead) res.fail("worker-process-died","the second worker process stopped answering"); remote.quit(); int st = 0; if(worker > 0) waitpid(worker,&st,0); if(res.ok && !(WIFEXITED(st) && WEXITSTATUS(st) == 0)) res.fail("worker-process-died","the second worker process ended with status " + std::to_string(st)); ::close(remote.to); ::close(remote.from); }
			recs.clear(); ci_own.reset(); ci = nullptr; app.reset(); c.cache = 0; srv.reset();
		}
		res.hash = simk::trace_hash() ^ runner::fnv(std::to_string(c.cnt["fetch_hit"]) + ":" + std::to_string(c.cnt["fetch_miss"]));
		res.counters["sim_seconds"] = (long long)((simk::now_us() - sp.start_time_s*1000000LL)/1000000);
		simk::end();
		for(auto &kv:c.cnt) res.counters[kv.first] = (long long)kv.second;
		res.counters["ops"] = (long long)ops.size(); if(c.inconclusive) res.counters["inconclusive_runs"] = 1;
		bool nontrivial = c.c08 ? (c.evicted && c.cnt["fetch_hit"] > 0) : c.hit_after_inval;
		if(nontrivial){ std::string shape; for(size_t i=0;i<ops.size();i++){ const J &o = ops.a[i]; shape += o.gets("op").substr(0,2) + std::to_string(o.geti("k")) + "," + std::to_string(o.geti("t")) + ";"; } res.nt = runner::fnv(shape + plan.gets("backend") + std::to_string(limit)); if(!res.nt) res.nt = 1; }
		return res;
	}
};
}
int main(int argc,char **argv){ E2 e; return runner::main_impl(argc,argv,e,"E2"); }
