// simk — a simulated kernel for deterministic simulation of cppcms (see /verif/DESIGN.md §2.1).
// Link-time seam: every symbol in sim/wrap.list is redirected here with -Wl,--wrap.
// One simulation at a time per process. Real threads, exactly one released at a time.
#pragma once
#include <cstdint>
#include <cstddef>
#include <memory>
#include <deque>
#include <map>
#include <set>
#include <string>
#include <vector>
#include <functional>

namespace simk {

// ---------------------------------------------------------------- PRNG (xorshift64*, one per stream)
struct Rng {
	uint64_t s = 88172645463325252ULL;
	void seed(uint64_t v) { s = v * 0x9E3779B97F4A7C15ULL + 0xD1B54A32D192ED03ULL; if(!s) s = 1; for(int i=0;i<4;i++) next(); }
	uint64_t next() { s ^= s >> 12; s ^= s << 25; s ^= s >> 27; return s * 0x2545F4914F6CDD1DULL; }
	uint64_t below(uint64_t n) { return n ? next() % n : 0; }
	bool chance(unsigned per1024) { return per1024 && (next() & 1023) < per1024; }
	int64_t range(int64_t lo,int64_t hi) { return lo + (int64_t)below((uint64_t)(hi-lo+1)); }
};

// ---------------------------------------------------------------- run parameters (all come from the plan)
enum Strategy { S_RANDOM=0, S_PCT=1, S_RUN_TO_BLOCK=2 };
struct Params {
	uint64_t sched_seed = 1;
	uint64_t fault_seed = 1;
	int strategy = S_RANDOM;
	int pct_depth = 2;
	int pct_len = 2000;            // horizon in which PCT change points are drawn
	std::vector<uint32_t> tape;    // explicit schedule choices (index modulo #candidates), used before the strategy
	uint64_t max_steps = 4000000;
	int tick_us = 1;               // simulated cost of one scheduling step
	int64_t start_time_s = 1700000000;
	// transport / file faults, per 1024 calls
	unsigned p_short_read = 0, p_short_write = 0, p_eintr = 0, p_spurious = 0;
	unsigned p_file_short = 0, p_file_eintr = 0;
	size_t file_short_min = 2;      // file reads/writes shorter than this are never shortened (E7: the 16-byte session header is atomic)
	unsigned p_cv_spurious = 0;
	// stdio faults (disk full / I/O error) on FILE streams whose path contains stdio_track: the i-th eligible stdio call
	// (fopen; fwrite of n>0 bytes; fflush, fseek, fseeko while written data may still be buffered: in call order) fails when i is listed in stdio_fail_at; with stdio_sticky every
	// later eligible call fails too (the disk stays full)
	std::string stdio_track; std::vector<uint32_t> stdio_fail_at; bool stdio_sticky = false; size_t fread_short_bytes = (size_t)-1;   /* fread on a tracked stream delivers only this many bytes (then fails) when more were asked for */
	std::vector<uint32_t> accept_fail_at;    // the i-th accept() that finds a pending connection fails with EMFILE (descriptor exhaustion, transient): the connection stays in the backlog
	std::vector<uint32_t> urandom_fail_at;   // the i-th open("/dev/urandom") fails with EMFILE (descriptor exhaustion) for the listed i
	unsigned p_connect_inprogress = 0;      // per 1024: a non-blocking connect() answers EINPROGRESS; the connection is completed (or refused) later by complete_connect(), called by an environment actor
	size_t default_chan_cap = 65536;
	bool text_trace = false;
	std::string vroot = "/simfs";   // paths below are served by the in-memory file system
};

// ---------------------------------------------------------------- statistics: what actually fired
struct Stats {
	uint64_t steps=0, switches=0, clock_jumps=0;
	uint64_t short_reads=0, short_writes=0, eagain_r=0, eagain_w=0, eintr=0, spurious=0, resets=0, epipe=0, partitions=0, partition_refused=0, getpeername_enotconn=0, urandom_open_failed=0, accept_emfile=0, file_write_failed=0, accept_spurious=0, connect_inprogress=0, fread_short=0;
	uint64_t file_short=0, file_eintr=0, cv_spurious=0, stdio_ops=0, stdio_fail=0;
	uint64_t threads_created=0, mutex_contended=0, rw_contended=0, cv_waits=0;
	uint64_t accepts=0, connects=0, bytes_rx=0, bytes_tx=0;
	uint64_t fd_leaks=0;
};

// ---------------------------------------------------------------- run control
void begin(const Params &p);       // calling thread becomes sim thread 0
void end();                        // all other sim threads must have finished
bool active();
bool in_sim();                     // active and calling thread is a sim thread
Stats &stats();
uint64_t trace_hash();
void trace_mix(uint64_t v);        // fold harness-level events into the trace
void tracef(const char *fmt,...);  // text trace (only when text_trace)
const std::string &trace_text();
Rng &fault_rng();
int self_id();

// guided schedules (replay / minimisation of a schedule): at decision i run candidate tape[i] if it is enabled, otherwise
// (and for entries equal to SCHED_DEFAULT, and beyond the end of the tape) keep running the last candidate if it is still
// enabled, else the enabled candidate with the smallest id. Candidates: thread id >= 0, actor i = -(i+1).
const int SCHED_DEFAULT = -999;
void set_guided_tape(const std::vector<int> &tape);   // applies to the next begin(); cleared by end()
void set_record_schedule(bool on);                     // record the chosen candidate of every decision of the next run
const std::vector<int> &recorded_schedule();

// time
int64_t now_us();
void advance_us(int64_t d);        // clock jump (fault / workload op)
void set_node(int node);           // node of the calling thread (inherited by threads it creates)
void set_node_skew_us(int node,int64_t skew);

// fatal end of a run (deadlock, step limit): reported through this callback, which must not return
extern void (*on_fatal)(const char *cls,const std::string &msg);
[[noreturn]] void fatal(const char *cls,const std::string &msg);
std::string dump_state();

// TSan: harness and simulator state is shared between sim threads without (TSan-visible) synchronisation by design;
// accesses that go through intercepted libc functions (memcpy/memcmp inside std::string) must be bracketed by this guard.
// Keep the scope tight: never around calls into the code under test.
struct TsanIgnore { TsanIgnore(); ~TsanIgnore(); };
// Harness threads learn about each other's progress through the simulator (block/yield), which the race detector does not see. Where the harness orders two accesses
// to an object of the code under test that way - "the completion handler has run, so now I may close the device" - it tells the detector what a real application's
// own synchronisation would have told it: hb_release(tag) on the signalling side, hb_acquire(tag) on the waiting side. No-ops outside TSan builds.
void hb_release(const void *tag);
void hb_acquire(const void *tag);

// scheduling primitives for harness code
void yield();
bool block(std::function<bool()> pred,int64_t deadline_us,const char *why);  // false on timeout
void sleep_us(int64_t d);

// ---------------------------------------------------------------- environment actors
struct Actor {
	virtual bool enabled() = 0;           // can take a step now
	virtual void step() = 0;              // never blocks, never yields
	virtual int64_t next_time() { return -1; } // absolute µs at which it may become enabled, -1 none
	virtual const char *name() { return "actor"; }
	virtual ~Actor() {}
};
void add_actor(Actor *a);
void clear_actors();

// ---------------------------------------------------------------- network objects (for actors)
struct Chan {
	std::string buf; size_t head = 0;     // bytes [head, buf.size()) are queued
	size_t cap = 65536;
	bool wr_closed = false;               // writer closed: reader sees EOF after draining
	bool rd_closed = false;               // reader gone: writer gets EPIPE
	size_t size() const { return buf.size() - head; }
	bool empty() const { return size() == 0; }
	size_t room() const { return size() >= cap ? 0 : cap - size(); }
	void push(const char *p,size_t n) { if(head > 65536 && head*2 > buf.size()) { buf.erase(0,head); head=0; } buf.append(p,n); }
	size_t pop(char *p,size_t n) { size_t k = n < size() ? n : size(); if(p) buf.copy(p,k,head); head += k; if(head == buf.size()) { buf.clear(); head = 0; } return k; }
	uint64_t total_in = 0;
};
// the peer end of a simulated connection as seen by an actor (no descriptor)
struct Conn {
	std::shared_ptr<Chan> rx, tx;
	bool *reset_flag = nullptr;
	std::shared_ptr<bool> reset;          // shared with the server-side socket object
	size_t send_room() const { return tx->rd_closed || *reset ? 0 : tx->room(); }
	size_t send(const char *p,size_t n);  // accepts up to room
	size_t avail() const { return rx->size(); }
	bool eof() const { return rx->empty() && rx->wr_closed; }
	size_t recv(std::string &out,size_t max);
	void shutdown_wr() { tx->wr_closed = true; }
	void close() { tx->wr_closed = true; rx->rd_closed = true; }
	void do_reset() { *reset = true; tx->wr_closed = true; rx->rd_closed = true; }
	bool peer_closed() const { return rx->wr_closed; }
	bool peer_gone() const { return tx->rd_closed || *reset; }
};
// connect to a listening simulated address ("tcp:<port>" or "unix:<path>"); null if nobody listens
std::shared_ptr<Conn> client_connect(const std::string &addr,size_t cap_to_server,size_t cap_to_client);
bool is_listening(const std::string &addr);
int open_sim_fds();                     // number of simulated descriptors currently open
void set_link_cut(int node,const std::string &addr,bool cut);   // fault: partition between one node's threads and one listening address
int unconsumed_resets();                 // connecting-side sockets hit by an injected reset whose owner has not closed them yet
void lock_audit(bool on);                // on: start recording the addresses of the mutexes / rwlocks the code under test locks
std::vector<const void*> audited_locks();
int connecting_count();                  // non-blocking connects that answered EINPROGRESS and are not completed yet
bool complete_connect(uint64_t pick);    // completes one of them: established if somebody listens there now, refused otherwise
bool reset_accepted_stream(uint64_t pick); // fault: one established (accepted) connection is reset, both ends see ECONNRESET
int open_accepted_fds();                // ... of which were returned by accept() (server side connections)
std::string describe_fds();

// ---------------------------------------------------------------- in-memory file system
struct FsFile { std::string data; uint64_t ino = 0; };
struct FsEvent {
	enum Kind { CREATE, WRITE, UNLINK, MKDIR, RENAME, TRUNC } kind;
	std::string path, path2;
	uint64_t off = 0;
	std::string old_bytes, new_bytes;   // WRITE: bytes replaced (old may be shorter when the file grew)
	uint64_t old_size = 0;
};
struct FsImage { std::map<std::string,std::shared_ptr<FsFile>> files; std::set<std::string> dirs; };
FsImage fs_snapshot();                  // deep copy
void fs_restore(const FsImage &img);    // deep copy in
std::vector<FsEvent> &fs_journal();
bool fs_exists(const std::string &path);
std::vector<std::string> fs_list(const std::string &dir);
std::string *fs_data(const std::string &path);   // null if absent
void fs_put(const std::string &path,const std::string &data);
void fs_remove(const std::string &path);
void fs_mkdir(const std::string &path);
uint64_t fs_opens();                    // number of open() calls served by the sim fs in this run
const std::vector<std::string> &fs_open_log();  // paths passed to open/unlink/stat under vroot

// probe counters bumped by CPPCMS_VERIF_PROBE(id) sites in /repo (cleared by begin)
std::map<std::string,uint64_t> &probes();

// entropy: bytes served for /dev/urandom reads come from this stream
Rng &entropy_rng();
void arm_file_write_fault(int skip,int err);   // simulated file system: after `skip` more write() calls the disk is full (err ENOSPC: possibly one last partial write) or broken (EIO); every later write fails until disarmed
void disarm_file_write_fault();
const std::vector<std::string> &entropy_by_open();   // per closed open() of the simulated /dev/urandom: the bytes it was served, in order (however the reads were cut): an identifier "drawn from the entropy source" equals one of them

} // namespace simk
