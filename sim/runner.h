// Common harness driver: batch exploration, confirmation in pristine forked children, generic plan
// shrinking, replay. One Engine per binary. See DESIGN.md §2.3.
#pragma once
#include <sys/wait.h>
#include <sys/stat.h>
#include <algorithm>
#include <sys/personality.h>
#include <unistd.h>
#include <fcntl.h>
#include <signal.h>
#include <time.h>
#include <cstring>
#include <sys/resource.h>
#include <cstdio>
#include <fstream>
#include <functional>
#include <sstream>
#include <set>
#include "json.h"
#include "simk.h"

static long runner_idx = -1;   // index of the run inside the batch (engines may enumerate on it)

struct RunResult {
	bool ok = true;
	std::string cls;        // violation class (stable across shrinking), empty when ok
	std::string msg;        // human readable detail
	std::string fp;         // fingerprint for known-findings matching
	uint64_t hash = 0;      // trace hash
	uint64_t nt = 0;        // non-trivial-case key (0 = trivial)
	J counters = J::obj();  // flat name -> int, summed by the driver
	std::vector<int> tape;  // recorded schedule (only when the plan asks for it)
	std::string plan_sample; // batch runs whose plan was generated in the forked child: the beginning of the plan text, for the evidence samples
	void fail(const std::string &c,const std::string &m,const std::string &f = "") { if(ok) { ok = false; cls = c; msg = m; fp = f.empty() ? c : f; } }
};

struct Engine {
	virtual ~Engine() {}
	virtual J generate(uint64_t seed,const std::string &prop,bool thorough) = 0;
	virtual RunResult run(const J &plan) = 0;           // pure function of the plan and the code
	virtual bool fork_per_run(const J &plan) { (void)plan; return false; }
	virtual bool always_forks() { return false; }
	virtual bool exec_per_run() { return false; }       // always_forks engines only: every run (batch and the two reproduction runs of a confirmation) happens in a fresh image of the program       // every run of this engine is forked: the batch driver lets the child generate the plan too, so that the driver's own heap stays as pristine as that of a confirming process (address-ordered containers in the code under test)
	virtual bool shrink_skip_key(const std::string &k) { return k.size() >= 4 && k.compare(k.size()-4,4,"seed") == 0; }
};

extern "C" {
__attribute__((used)) const char *__asan_default_options() { return "exitcode=77:detect_leaks=0:abort_on_error=0:quarantine_size_mb=16:allocator_may_return_null=1:detect_stack_use_after_return=0"; }
__attribute__((used)) const char *__ubsan_default_options() { return "print_stacktrace=1:halt_on_error=1:exitcode=77"; }
__attribute__((used)) const char *__tsan_default_options() { return "exitcode=66:halt_on_error=1:report_signal_unsafe=0:second_deadlock_stack=1"; }
}

namespace runner {

inline uint64_t mix(uint64_t a,uint64_t b){ uint64_t x = a * 0x9E3779B97F4A7C15ULL ^ (b + 0x7F4A7C15ULL + (a<<6) + (a>>2)); x ^= x >> 31; x *= 0xD6E8FEB86659FD93ULL; x ^= x >> 29; return x; }
inline double wall(){ struct timespec ts; clock_gettime(CLOCK_MONOTONIC,&ts); return ts.tv_sec + ts.tv_nsec*1e-9; }
inline uint64_t fnv(const std::string &s,uint64_t h = 1469598103934665603ULL){ for(unsigned char c:s) h = (h ^ c) * 1099511628211ULL; return h; }

static int g_result_fd = -1;        // child: where the result JSON goes
static bool g_in_child = false;
static std::string g_scratch;

inline J result_json(const RunResult &r){ J j = J::obj(); if(!r.tape.empty()){ J t = J::arr(); for(int x:r.tape) t.push(x); j["tape"] = t; } j["ok"] = r.ok; j["cls"] = r.cls; j["msg"] = r.msg; j["fp"] = r.fp; j["hash"] = (unsigned long long)r.hash; j["nt"] = (unsigned long long)r.nt; j["counters"] = r.counters; if(!r.plan_sample.empty()) j["plan_sample"] = r.plan_sample; return j; }
inline RunResult result_from(const J &j){ RunResult r; { const J &t = j.get("tape"); for(size_t i=0;i<t.size();i++) r.tape.push_back((int)t.a[i].as_int()); } r.ok = j.geti("ok"); r.cls = j.gets("cls"); r.msg = j.gets("msg"); r.fp = j.gets("fp"); r.hash = (uint64_t)j.geti("hash"); r.nt = (uint64_t)j.geti("nt"); r.counters = j.get("counters"); r.plan_sample = j.gets("plan_sample"); return r; }

#ifdef VERIF_COV
extern "C" void __gcov_dump(void);
#define VERIF_COV_DUMP() __gcov_dump()
#else
#define VERIF_COV_DUMP() ((void)0)
#endif
static std::string *g_cur_seed_line = nullptr;
inline void fatal_cb(const char *cls,const std::string &msg){
	RunResult r; r.fail(cls,msg,cls); r.hash = simk::trace_hash();
	{ const std::string &t = simk::trace_text(); size_t cap = getenv("VERIF_TRACE_CHARS") ? (size_t)atol(getenv("VERIF_TRACE_CHARS")) : 12000; if(!t.empty()) r.msg += "\nTRACE(tail):\n" + (t.size() > cap ? t.substr(t.size()-cap) : t); }
	if(g_in_child && g_result_fd >= 0){ std::string s = result_json(r).str(); (void)!::write(g_result_fd,s.data(),s.size()); VERIF_COV_DUMP(); _exit(0); }
	// in-process batch: report and die; the python driver restarts the worker after this seed
	printf("V %s %s\n",g_cur_seed_line ? g_cur_seed_line->c_str() : "?",result_json(r).str().c_str()); fflush(stdout);
	_exit(3);
}

// what a run process does once it is set up: (generate the plan,) run it, write the result JSON to fd, leave
inline void child_body(Engine &e,const J &plan_in,int fd,const std::function<J()> *gen){
		RunResult r; J generated; if(gen) generated = (*gen)(); const J &plan = gen ? generated : plan_in;
		{ const J &sch = plan.get("sched"); if(sch.is_obj()){ size_t len = (size_t)std::max<int64_t>(0,std::min<int64_t>(sch.geti("len"),50000000)); std::vector<int> t(len,simk::SCHED_DEFAULT); const J &sw = sch.get("switches"); for(size_t i=0;i<sw.size();i++) if(sw.a[i].size() >= 2){ int64_t at = sw.a[i].a[0].as_int(); if(at >= 0 && (size_t)at < len) t[(size_t)at] = (int)sw.a[i].a[1].as_int(); } simk::set_guided_tape(t); }
		  if(plan.geti("record_schedule")) simk::set_record_schedule(true); }
		try { r = e.run(plan); }
		catch(std::exception const &ex){ r.fail("harness-exception",ex.what()); }
		if(plan.geti("record_schedule")) r.tape = simk::recorded_schedule();
		for(auto &kv:simk::probes()) r.counters["probe:" + kv.first] = (long long)kv.second;
		{ const std::string &t = simk::trace_text(); if(!t.empty()) r.msg += "\nTRACE(tail):\n" + (t.size() > 12000 ? t.substr(t.size()-12000) : t); }
		if(gen){ r.plan_sample = plan.str(); if(r.plan_sample.size() > 1500) r.plan_sample = r.plan_sample.substr(0,1500) + "..."; }
		std::string s = result_json(r).str();
		size_t off = 0; while(off < s.size()){ ssize_t n = ::write(fd,s.data()+off,s.size()-off); if(n <= 0) break; off += n; }
		VERIF_COV_DUMP();
		_exit(0);
}

// run one plan in a forked child of this (pristine) process
inline RunResult run_forked(Engine &e,const J &plan_in,int timeout_s = 40,const std::function<J()> *gen = nullptr,const std::vector<std::string> *exec_args = nullptr){   // a run that spins outside the simulator (never reaching an intercepted call) is killed and reported as a real-time hang
	int pfd[2]; if(pipe(pfd) != 0) { RunResult r; r.fail("machinery","pipe failed"); return r; }
	std::string errf = g_scratch + "/stderr." + std::to_string(getpid());
	fflush(stdout); fflush(stderr);
	pid_t pid = fork();
	if(pid == 0){
		close(pfd[0]); g_in_child = true; g_result_fd = pfd[1];
		if(!getenv("SIMK_KEEP_STDERR")){ int ef = open(errf.c_str(),O_WRONLY|O_CREAT|O_TRUNC,0600); if(ef >= 0){ dup2(ef,2); close(ef); } }
		// the limit is on the CPU time of the run (a run spinning outside the simulator burns it), so that a loaded machine does not turn slow runs into "hangs";
		// a generous wall-clock alarm stays as the backstop for a run that blocks in a real system call
		{ int lim = getenv("VERIF_RUN_TIMEOUT") ? atoi(getenv("VERIF_RUN_TIMEOUT")) : timeout_s; struct rlimit rl; rl.rlim_cur = (rlim_t)lim; rl.rlim_max = (rlim_t)lim + 5; setrlimit(RLIMIT_CPU,&rl); alarm((unsigned)lim * 8); }
		if(exec_args){   /* a fresh image of this program generates and runs the plan of one index (mode --child-run): its heap owes nothing to what the driving process has done so far */
			if(pfd[1] != 9){ dup2(pfd[1],9); close(pfd[1]); } setenv("VERIF_RESULT_FD","9",1); { std::string top = g_scratch.substr(0,g_scratch.rfind('/')); setenv("VERIF_SCRATCH_BASE",top.c_str(),1); }
			std::vector<char*> av; for(auto &x:*exec_args) av.push_back(const_cast<char*>(x.c_str())); av.push_back(nullptr); execv("/proc/self/exe",av.data()); _exit(4); }
		child_body(e,plan_in,pfd[1],gen);
	}
	close(pfd[1]);
	std::string out; char buf[65536]; ssize_t n;
	while((n = ::read(pfd[0],buf,sizeof(buf))) > 0) out.append(buf,n);
	close(pfd[0]);
	int st = 0; waitpid(pid,&st,0);
	RunResult r;
	if(!out.empty()){
		try { r = result_from(J::parse(out)); } catch(...) { r.fail("machinery","unparsable child result"); }
		if(r.ok && WIFEXITED(st) && WEXITSTATUS(st) != 0) out.clear();   // died after reporting ok
		else { unlink(errf.c_str()); return r; }
	}
	// child died without a result: classify from status + stderr
	std::string err; { std::ifstream f(errf); std::stringstream ss; ss << f.rdbuf(); err = ss.str(); }
	unlink(errf.c_str());
	std::string summary; size_t p = err.find("SUMMARY: "); if(p != std::string::npos){ size_t q = err.find('\n',p); summary = err.substr(p+9,q == std::string::npos ? std::string::npos : q-p-9); }
	std::string kind;
	if(!summary.empty()){ // "AddressSanitizer: heap-buffer-overflow file:line in func"
		std::istringstream ss(summary); std::string a,b; ss >> a >> b; kind = "sanitizer:" + a + b; }
	else if(err.find("runtime error:") != std::string::npos){ kind = "sanitizer:ubsan"; size_t q = err.find("runtime error:"); summary = err.substr(q,err.find('\n',q)-q); }
	else if(err.find("terminate called") != std::string::npos){ kind = "crash:terminate"; size_t q = err.find("terminate called"); summary = err.substr(q,200); }
	else if(WIFSIGNALED(st)) kind = std::string("crash:signal") + std::to_string(WTERMSIG(st)) + ((WTERMSIG(st) == SIGALRM || WTERMSIG(st) == SIGXCPU || WTERMSIG(st) == SIGKILL) ? "(real-time hang)" : "");
	else kind = "crash:exit" + std::to_string(WIFEXITED(st) ? WEXITSTATUS(st) : -1);
	if(err.size() > 6000) err = err.substr(0,6000);
	r.fail(kind,summary + "\n" + err,kind);
	return r;
}

// ---------------------------------------------------------------- generic shrinking over the JSON plan
struct Shrinker {
	Engine &e; std::string cls; int budget; int runs = 0; double deadline;
	Shrinker(Engine &en,const std::string &c,int b,double secs) : e(en), cls(c), budget(b), deadline(wall()+secs) {}
	bool fails(const J &p){ if(runs >= budget || wall() > deadline) return false; runs++; RunResult r = run_forked(e,p); return !r.ok && r.cls == cls; }
	// collect paths to every array / scalar
	typedef std::vector<std::string> Path;   // keys; array index as "#n"
	static J *at(J &root,const Path &p){ J *c = &root; for(auto &k:p){ if(k[0]=='#'){ size_t i = strtoul(k.c_str()+1,nullptr,10); if(c->t != J::ARR || i >= c->a.size()) return nullptr; c = &c->a[i]; } else { if(c->t != J::OBJ) return nullptr; J *n = nullptr; for(auto &kv:c->o) if(kv.first == k) n = &kv.second; if(!n) return nullptr; c = n; } } return c; }
	void walk(J &v,Path &cur,std::vector<Path> &arrs,std::vector<Path> &scal){
		if(v.t == J::ARR){ arrs.push_back(cur); for(size_t i=0;i<v.a.size();i++){ cur.push_back("#"+std::to_string(i)); walk(v.a[i],cur,arrs,scal); cur.pop_back(); } }
		else if(v.t == J::OBJ){ for(auto &kv:v.o){ if(e.shrink_skip_key(kv.first)) continue; cur.push_back(kv.first); walk(kv.second,cur,arrs,scal); cur.pop_back(); } }
		else if(v.t == J::INT || v.t == J::STR || v.t == J::BOOL) scal.push_back(cur);
	}
	bool shrink_arrays(J &plan){
		bool progress = false; std::vector<Path> arrs,scal; Path cur; walk(plan,cur,arrs,scal);
		// longest arrays first
		std::sort(arrs.begin(),arrs.end(),[&](const Path&a,const Path&b){ J*x=at(plan,a),*y=at(plan,b); return (x?x->a.size():0) > (y?y->a.size():0); });
		for(auto &pa:arrs){
			J *arr = at(plan,pa); if(!arr || arr->t != J::ARR || arr->a.empty()) continue;
			size_t chunk = arr->a.size();
			while(chunk >= 1){
				bool removed = false;
				for(size_t start = 0; ; ){
					arr = at(plan,pa); if(!arr || start >= arr->a.size()) break;
					J cand = plan; J *ca = at(cand,pa); size_t end = std::min(start+chunk,ca->a.size());
					ca->a.erase(ca->a.begin()+start,ca->a.begin()+end);
					if(fails(cand)){ plan = cand; removed = true; progress = true; }
					else start += chunk;
					if(runs >= budget || wall() > deadline) return progress;
				}
				if(chunk == 1 && !removed) break;
				chunk = chunk > 1 ? (chunk+1)/2 : (removed ? 1 : 0);
				if(chunk == 0) break;
			}
		}
		return progress;
	}
	bool shrink_scalars(J &plan){
		bool progress = false; std::vector<Path> arrs,scal; Path cur; walk(plan,cur,arrs,scal);
		for(auto &ps:scal){
			J *v = at(plan,ps); if(!v) continue;
			if(v->t == J::BOOL){ if(v->b){ J c = plan; at(c,ps)->b = false; if(fails(c)){ plan = c; progress = true; } } }
			else if(v->t == J::INT){
				int64_t cur_v = v->i; if(cur_v == 0) continue;
				int64_t lo = 0;  // smallest |x| known... try 0 first, then bisect magnitude
				J c = plan; at(c,ps)->i = 0; if(fails(c)){ plan = c; progress = true; continue; }
				int64_t hi = cur_v; // failing
				for(int it=0; it<12 && (hi-lo > 1 || lo-hi > 1); it++){ int64_t mid = lo + (hi-lo)/2; J c2 = plan; at(c2,ps)->i = mid; if(fails(c2)){ plan = c2; hi = mid; progress = true; } else lo = mid; }
			}
			else if(v->t == J::STR && !v->s.empty()){
				J c = plan; at(c,ps)->s.clear(); if(fails(c)){ plan = c; progress = true; continue; }
				size_t chunk = v->s.size()/2;
				while(chunk >= 1){
					for(size_t start = 0; ; ){ J *cv = at(plan,ps); if(start >= cv->s.size()) break; J c2 = plan; at(c2,ps)->s.erase(start,chunk); if(fails(c2)){ plan = c2; progress = true; } else start += chunk; if(runs >= budget || wall() > deadline) return progress; }
					chunk /= 2;
				}
			}
			if(runs >= budget || wall() > deadline) break;
		}
		return progress;
	}
	// ---- schedule minimisation: record the failing schedule, replay it as an explicit tape, cut it short, then turn as many
	// entries as possible into "default" (keep running the same thread); what remains are the context switches that matter
	static J with_sched(const J &plan,const std::vector<int> &t){ J q = plan; J sch = J::obj(); sch["len"] = (long long)t.size(); J sw = J::arr(); for(size_t i=0;i<t.size();i++) if(t[i] != simk::SCHED_DEFAULT){ J e2 = J::arr(); e2.push((long long)i); e2.push(t[i]); sw.push(e2); } sch["switches"] = sw; q["sched"] = sch; return q; }
	J shrink_schedule(const J &plan,int *switches_before = nullptr,int *switches_after = nullptr){
		if(plan.has("sched")) return plan;
		J rec = plan; rec["record_schedule"] = 1; if(runs >= budget || wall() > deadline) return plan; runs++;
		RunResult r = run_forked(e,rec); if(r.ok || r.cls != cls || r.tape.size() < 2 || r.tape.size() > 400000) return plan;
		std::vector<int> T = r.tape; int sw0 = 0; for(size_t i=1;i<T.size();i++) if(T[i] != T[i-1]) sw0++; if(switches_before) *switches_before = sw0;
		if(!fails(with_sched(plan,T))) return plan;                       // an explicit tape must reproduce the failure, else leave the seed-based schedule
		size_t lo = 0, hi = T.size(); while(lo < hi && runs < budget && wall() < deadline){ size_t mid = lo + (hi-lo)/2; std::vector<int> t(T.begin(),T.begin()+mid); if(fails(with_sched(plan,t))) hi = mid; else lo = mid + 1; }
		{ std::vector<int> t(T.begin(),T.begin()+hi); if(hi < T.size() && fails(with_sched(plan,t))) T = t; }
		for(size_t chunk = std::max<size_t>(1,T.size()/2); chunk >= 1 && runs < budget && wall() < deadline; chunk = chunk > 1 ? (chunk+1)/2 : 0){
			for(size_t st = 0; st < T.size() && runs < budget && wall() < deadline; st += chunk){ bool any = false; std::vector<int> t = T; for(size_t i=st;i<st+chunk && i<t.size();i++) if(t[i] != simk::SCHED_DEFAULT){ t[i] = simk::SCHED_DEFAULT; any = true; } if(any && fails(with_sched(plan,t))) T = t; }
			if(chunk == 1) break; }
		int sw1 = 0; for(size_t i=0;i<T.size();i++) if(T[i] != simk::SCHED_DEFAULT) sw1++; if(switches_after) *switches_after = sw1;
		return with_sched(plan,T);
	}
	J shrink(J plan){ for(int round=0; round<6; round++){ bool a = shrink_arrays(plan); bool b = shrink_scalars(plan); if(!a && !b) break; if(runs >= budget || wall() > deadline) break; } return plan; }
};

inline std::string slurp(const std::string &p){ std::ifstream f(p); std::stringstream ss; ss << f.rdbuf(); return ss.str(); }

inline int main_impl(int argc,char **argv,Engine &e,const char *engine_name){
	std::string mode,prop,tier = "quick",replay,outdir = "/verif/replays";
	uint64_t base = 1; long from = 0,count = 1000000000L,stride = 1; double seconds = 1e9; uint64_t seed = 0; bool have_seed = false; bool trace = false;
	int shrink_budget = 400; double shrink_secs = 90; int sched_budget = 250;
	for(int i=1;i<argc;i++){ std::string a = argv[i]; auto nx = [&]{ return std::string(i+1<argc ? argv[++i] : ""); };
		if(a == "--batch" || a == "--confirm" || a == "--replay" || a == "--plan" || a == "--child-run") { mode = a; if(a == "--replay") replay = nx(); }
		else if(a == "--prop") prop = nx(); else if(a == "--tier") tier = nx(); else if(a == "--base") base = strtoull(nx().c_str(),0,10);
		else if(a == "--from") from = atol(nx().c_str()); else if(a == "--count") count = atol(nx().c_str()); else if(a == "--stride") stride = atol(nx().c_str());
		else if(a == "--seconds") seconds = atof(nx().c_str()); else if(a == "--seed") { seed = strtoull(nx().c_str(),0,10); have_seed = true; }
		else if(a == "--out") outdir = nx(); else if(a == "--trace") trace = true; else if(a == "--shrink-budget") shrink_budget = atoi(nx().c_str()); else if(a == "--shrink-secs") shrink_secs = atof(nx().c_str());
	}
	// stable heap/stack layout: re-exec once with ASLR off (address-ordered containers inside cppcms)
	if(!getenv("SIMK_NOASLR")){ int pers = personality(0xffffffff); if(pers != -1 && !(pers & ADDR_NO_RANDOMIZE)){ if(personality(pers | ADDR_NO_RANDOMIZE) != -1){ setenv("SIMK_NOASLR","1",1); execv("/proc/self/exe",argv); } } }
	signal(SIGPIPE,SIG_IGN);
	bool thorough = tier == "thorough";
	// scratch paths have the same LENGTH whatever the process ids are and however the harness was started (bin/check passes /dev/shm/verif-check-<7 digits>):
	// a path one character longer changes allocation sizes, hence heap addresses, hence the order of address-ordered containers in the code under test
	static std::string g_scratch_top;
	{ const char *sb = getenv("VERIF_SCRATCH_BASE"); char b[64]; snprintf(b,sizeof(b),"%07d",(int)getpid());
	  if(sb && strlen(sb) == strlen("/dev/shm/verif-check-0000000")) g_scratch = std::string(sb) + "/w" + b;
	  else { g_scratch_top = std::string("/dev/shm/verif-check-") + b; mkdir(g_scratch_top.c_str(),0700); g_scratch = g_scratch_top + "/w" + b; } }
	mkdir(g_scratch.c_str(),0700);
	struct Cleanup { ~Cleanup(){ if(!g_in_child){ std::string c = "rm -rf " + (g_scratch_top.empty() ? g_scratch : g_scratch_top); (void)!system(c.c_str()); } } } cleanup;
	simk::on_fatal = fatal_cb;
	auto seed_of = [&](long idx){ return mix(base,(uint64_t)idx); };

	if(!have_seed){ seed = seed_of(from); have_seed = true; }
	runner_idx = from;
	if(mode == "--child-run"){ g_in_child = true; g_result_fd = getenv("VERIF_RESULT_FD") ? atoi(getenv("VERIF_RESULT_FD")) : 1; std::function<J()> g = [&]{ return e.generate(seed,prop,thorough); }; child_body(e,J(),g_result_fd,&g); }
	if(mode == "--plan"){ J p = e.generate(seed,prop,thorough); printf("%s\n",p.str().c_str()); return 0; }

	if(mode == "--batch"){
		double t0 = wall(); long runs = 0; std::map<std::string,int64_t> sums; J samples = J::arr(); int viol = 0; std::set<std::string> classes;
		for(long idx = from; idx < from + count*stride && wall()-t0 < seconds; idx += stride){
			uint64_t s = seed_of(idx);
			std::string sl = std::to_string(idx) + " " + std::to_string(s); g_cur_seed_line = &sl;
			printf("S %s\n",sl.c_str()); fflush(stdout);
			runner_idx = idx;
			J plan; RunResult r; bool child_generates = e.always_forks();
			if(child_generates && e.exec_per_run()){ std::vector<std::string> av = {argv[0],"--child-run","--prop",prop,"--tier",tier,"--seed",std::to_string(s)}; r = run_forked(e,plan,40,nullptr,&av); }
			else if(child_generates){ std::function<J()> g = [&]{ return e.generate(s,prop,thorough); }; r = run_forked(e,plan,40,&g); }
			else plan = e.generate(s,prop,thorough);
			if(child_generates){}
			else if(e.fork_per_run(plan)) r = run_forked(e,plan);
			else { try { r = e.run(plan); } catch(std::exception const &ex){ r.fail("harness-exception",ex.what()); } for(auto &kv:simk::probes()) r.counters["probe:" + kv.first] = (long long)kv.second; }
			runs++;
			if(r.counters.t == J::OBJ) for(auto &kv:r.counters.o) sums[kv.first] += kv.second.as_int();
			if(samples.a.size() < 2 || (r.nt && samples.a.size() < 3)){ std::string ps = child_generates ? r.plan_sample : plan.str(); if(ps.size() > 1500) ps = ps.substr(0,1500) + "..."; samples.push(J(ps)); }
			if(r.ok) printf("R %s ok %016llx %016llx\n",sl.c_str(),(unsigned long long)r.hash,(unsigned long long)r.nt);
			else { viol++; if(classes.insert(r.cls).second || viol <= 3) printf("V %s %s\n",sl.c_str(),result_json(r).str().c_str()); else printf("v %s %s\n",sl.c_str(),r.cls.c_str()); }
			fflush(stdout);
			if(classes.size() >= 12 || viol >= 2000) break;   // a frequent (possibly known) finding must not end exploration; the driver restarts the batch after this run
		}
		J t = J::obj(); t["runs"] = (long long)runs; t["wall_s"] = wall()-t0; J sj = J::obj(); for(auto &kv:sums) sj[kv.first] = (long long)kv.second; t["sums"] = sj; t["samples"] = samples;
		printf("T %s\n",t.str().c_str()); fflush(stdout);
		return 0;
	}
	if(mode == "--confirm"){
		J plan = e.generate(seed,prop,thorough);
		RunResult r1,r2;
		if(e.always_forks() && e.exec_per_run()){ std::vector<std::string> av = {argv[0],"--child-run","--prop",prop,"--tier",tier,"--seed",std::to_string(seed)}; r1 = run_forked(e,plan,40,nullptr,&av); r2 = run_forked(e,plan,40,nullptr,&av); }
		else { r1 = run_forked(e,plan); r2 = run_forked(e,plan); }
		J out = J::obj(); out["seed"] = (unsigned long long)seed; out["idx"] = (long long)from; out["base"] = (unsigned long long)base; out["engine"] = engine_name; out["property"] = prop;
		if(r1.ok && r2.ok){ out["status"] = "not-reproduced"; printf("C %s\n",out.str().c_str()); return 2; }
		if(r1.ok != r2.ok || r1.cls != r2.cls || r1.hash != r2.hash){ out["status"] = "nondeterministic"; out["r1"] = result_json(r1); out["r2"] = result_json(r2); printf("C %s\n",out.str().c_str()); return 2; }
		if(r1.cls.find("real-time hang") != std::string::npos){ shrink_budget = 4; sched_budget = 0; }   // every attempt costs a full time-out: keep the plan as it is
		Shrinker sh(e,r1.cls,shrink_budget,shrink_secs);
		J small = sh.shrink(plan);
		int sched_before = -1, sched_after = -1;
		{ Shrinker ss(e,r1.cls,sched_budget,shrink_secs/2); J s2 = ss.shrink_schedule(small,&sched_before,&sched_after); sh.runs += ss.runs; RunResult r3 = run_forked(e,s2), r4 = run_forked(e,s2); if(!r3.ok && r3.cls == r1.cls && !r4.ok && r4.hash == r3.hash) small = s2; else sched_after = -1; }
		RunResult rs = run_forked(e,small);
		if(rs.ok || rs.cls != r1.cls){ small = plan; rs = r1; }
		J rep = J::obj(); rep["engine"] = engine_name; rep["property"] = prop; rep["seed"] = (unsigned long long)seed; rep["idx"] = (long long)from; rep["base"] = (unsigned long long)base; rep["tier"] = tier; rep["class"] = rs.cls; rep["fingerprint"] = rs.fp; rep["message"] = rs.msg.substr(0,4000);
		rep["trace_hash"] = (unsigned long long)rs.hash; rep["schedule_switches_recorded"] = sched_before; rep["schedule_explicit_choices_after_minimisation"] = sched_after; rep["shrink_runs"] = sh.runs; rep["original_plan_bytes"] = (long long)plan.str().size(); rep["plan"] = small;
		std::string path = outdir + "/" + prop + "-" + std::to_string(seed) + ".json";
		{ std::ofstream f(path); f << rep.str() << "\n"; }
		out["status"] = "confirmed"; out["class"] = rs.cls; out["fingerprint"] = rs.fp; out["message"] = rs.msg.substr(0,1500); out["replay"] = path; out["shrink_runs"] = sh.runs;
		out["plan_bytes_before"] = (long long)plan.str().size(); out["plan_bytes_after"] = (long long)small.str().size();
		printf("C %s\n",out.str().c_str());
		return 1;
	}
	if(mode == "--replay"){
		J rep; try { rep = J::parse(slurp(replay)); } catch(std::exception const &ex){ fprintf(stderr,"cannot parse %s: %s\n",replay.c_str(),ex.what()); return 2; }
		J plan = rep.get("plan"); if(trace) plan["text_trace"] = true;
		RunResult r = run_forked(e,plan);
		J out = J::obj(); out["status"] = r.ok ? "ok" : "violation"; out["class"] = r.cls; out["fingerprint"] = r.fp; out["message"] = r.msg.substr(0,trace ? (getenv("VERIF_TRACE_CHARS") ? (size_t)atol(getenv("VERIF_TRACE_CHARS")) + 20000 : 20000) : 8000); out["trace_hash"] = (unsigned long long)r.hash;
		out["expected_class"] = rep.gets("class"); out["expected_hash"] = rep.get("trace_hash"); out["same"] = (!r.ok && r.cls == rep.gets("class"));
		printf("P %s\n",out.str().c_str());
		return r.ok ? 0 : 1;
	}
	fprintf(stderr,"usage: %s --batch|--confirm|--replay <file>|--plan --prop <id> [--tier t] [--base n] [--from i] [--stride k] [--count n] [--seconds s] [--seed s]\n",argv[0]);
	return 2;
}
} // namespace runner
