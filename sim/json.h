// Minimal JSON value for plans, results and evidence (independent of cppcms::json, which is code under test).
#pragma once
#include <cstdint>
#include <cstdio>
#include <cstdlib>
#include <map>
#include <string>
#include <vector>
#include <stdexcept>

struct J {
	enum T { NUL, BOOL, INT, DBL, STR, ARR, OBJ } t = NUL;
	bool b = false; int64_t i = 0; double d = 0; std::string s;
	std::vector<J> a; std::vector<std::pair<std::string,J>> o;
	J() {}
	J(bool v) : t(BOOL), b(v) {}
	J(int v) : t(INT), i(v) {}
	J(unsigned v) : t(INT), i(v) {}
	J(long v) : t(INT), i(v) {}
	J(long long v) : t(INT), i(v) {}
	J(unsigned long v) : t(INT), i((int64_t)v) {}
	J(unsigned long long v) : t(INT), i((int64_t)v) {}
	J(double v) : t(DBL), d(v) {}
	J(const char *v) : t(STR), s(v) {}
	J(const std::string &v) : t(STR), s(v) {}
	static J arr() { J j; j.t = ARR; return j; }
	static J obj() { J j; j.t = OBJ; return j; }
	bool is_obj() const { return t == OBJ; }
	bool is_arr() const { return t == ARR; }
	J &operator[](const std::string &k) { if(t != OBJ) { *this = obj(); } for(auto &kv : o) if(kv.first == k) return kv.second; o.push_back({k, J()}); return o.back().second; }
	const J *find(const std::string &k) const { if(t != OBJ) return nullptr; for(auto &kv : o) if(kv.first == k) return &kv.second; return nullptr; }
	bool has(const std::string &k) const { return find(k) != nullptr; }
	int64_t geti(const std::string &k, int64_t def = 0) const { const J *p = find(k); if(!p) return def; if(p->t == INT) return p->i; if(p->t == BOOL) return p->b; if(p->t == DBL) return (int64_t)p->d; return def; }
	std::string gets(const std::string &k, const std::string &def = "") const { const J *p = find(k); return p && p->t == STR ? p->s : def; }
	const J &get(const std::string &k) const { static J nul; const J *p = find(k); return p ? *p : nul; }
	void push(const J &v) { if(t != ARR) *this = arr(); a.push_back(v); }
	size_t size() const { return t == ARR ? a.size() : t == OBJ ? o.size() : 0; }
	int64_t as_int(int64_t def = 0) const { return t == INT ? i : t == BOOL ? b : t == DBL ? (int64_t)d : def; }

	static void esc(std::string &out, const std::string &s) {
		out += '"';
		for(unsigned char c : s) {
			if(c == '"') out += "\\\""; else if(c == '\\') out += "\\\\"; else if(c == '\n') out += "\\n"; else if(c == '\r') out += "\\r"; else if(c == '\t') out += "\\t";
			else if(c < 0x20 || c >= 0x7f) { char b[8]; snprintf(b, sizeof(b), "\\u%04x", c); out += b; }   // bytes are written as latin-1 code points
			else out += (char)c;
		}
		out += '"';
	}
	void dump(std::string &out) const {
		switch(t) {
		case NUL: out += "null"; break;
		case BOOL: out += b ? "true" : "false"; break;
		case INT: out += std::to_string(i); break;
		case DBL: { char buf[40]; snprintf(buf, sizeof(buf), "%.6g", d); out += buf; } break;
		case STR: esc(out, s); break;
		case ARR: out += '['; for(size_t k = 0; k < a.size(); k++) { if(k) out += ','; a[k].dump(out); } out += ']'; break;
		case OBJ: out += '{'; for(size_t k = 0; k < o.size(); k++) { if(k) out += ','; esc(out, o[k].first); out += ':'; o[k].second.dump(out); } out += '}'; break;
		}
	}
	std::string str() const { std::string r; dump(r); return r; }

	// ---- parser
	struct P { const char *p, *e; };
	static void ws(P &c) { while(c.p < c.e && (*c.p == ' ' || *c.p == '\n' || *c.p == '\t' || *c.p == '\r')) c.p++; }
	static J parse(const std::string &txt) { P c{txt.data(), txt.data() + txt.size()}; J v = pv(c); ws(c); if(c.p != c.e) throw std::runtime_error("json: trailing data"); return v; }
	static std::string pstr(P &c) {
		std::string r; c.p++;
		while(c.p < c.e && *c.p != '"') {
			if(*c.p == '\\') { c.p++; if(c.p >= c.e) break; char ch = *c.p++;
				switch(ch) { case 'n': r += '\n'; break; case 'r': r += '\r'; break; case 't': r += '\t'; break; case 'b': r += '\b'; break; case 'f': r += '\f'; break;
				case 'u': { unsigned v = 0; for(int k = 0; k < 4 && c.p < c.e; k++) { char h = *c.p++; v = v * 16 + (h <= '9' ? h - '0' : (h | 32) - 'a' + 10); } r += (char)(unsigned char)(v & 0xff); } break;
				default: r += ch; } }
			else r += *c.p++;
		}
		if(c.p >= c.e) throw std::runtime_error("json: unterminated string"); c.p++; return r;
	}
	static J pv(P &c) {
		ws(c); if(c.p >= c.e) throw std::runtime_error("json: eof");
		char ch = *c.p;
		if(ch == '{') { J v = obj(); c.p++; ws(c); if(c.p < c.e && *c.p == '}') { c.p++; return v; }
			for(;;) { ws(c); if(c.p >= c.e || *c.p != '"') throw std::runtime_error("json: key"); std::string k = pstr(c); ws(c); if(c.p >= c.e || *c.p != ':') throw std::runtime_error("json: colon"); c.p++; v.o.push_back({k, pv(c)}); ws(c);
				if(c.p < c.e && *c.p == ',') { c.p++; continue; } if(c.p < c.e && *c.p == '}') { c.p++; return v; } throw std::runtime_error("json: object"); } }
		if(ch == '[') { J v = arr(); c.p++; ws(c); if(c.p < c.e && *c.p == ']') { c.p++; return v; }
			for(;;) { v.a.push_back(pv(c)); ws(c); if(c.p < c.e && *c.p == ',') { c.p++; continue; } if(c.p < c.e && *c.p == ']') { c.p++; return v; } throw std::runtime_error("json: array"); } }
		if(ch == '"') return J(pstr(c));
		if(ch == 't' && c.e - c.p >= 4) { c.p += 4; return J(true); }
		if(ch == 'f' && c.e - c.p >= 5) { c.p += 5; return J(false); }
		if(ch == 'n' && c.e - c.p >= 4) { c.p += 4; return J(); }
		const char *s = c.p; bool dbl = false; if(*c.p == '-') c.p++;
		while(c.p < c.e && ((*c.p >= '0' && *c.p <= '9') || *c.p == '.' || *c.p == 'e' || *c.p == 'E' || *c.p == '+' || *c.p == '-')) { if(*c.p == '.' || *c.p == 'e' || *c.p == 'E') dbl = true; c.p++; }
		if(s == c.p) throw std::runtime_error("json: value");
		std::string num(s, c.p); if(dbl) return J(strtod(num.c_str(), nullptr)); return J((long long)strtoll(num.c_str(), nullptr, 10));
	}
};
