// simk — simulated kernel: scheduler, synchronisation, clock, sockets, reactors, files, entropy.
// See simk.h and /verif/DESIGN.md §2.1. Compiled WITHOUT -fsanitize=thread even in the tsan build;
// every wrapper is additionally bracketed by TSan ignore annotations (IGN).
#include <pthread.h>
#include <thread>
#include <mutex>
#include <condition_variable>
#include <memory>
#include <vector>
#include <deque>
#include <map>
#include <unordered_map>
#include <functional>
#include <atomic>
#include <string>
#include <algorithm>
#include <cstdio>
#include <cstdlib>
#include <cstring>
#include <cstdarg>
#include <cerrno>
#include <unistd.h>
#include <fcntl.h>
#include <poll.h>
#include <dirent.h>
#include <sys/epoll.h>
#include <sys/select.h>
#include <sys/socket.h>
#include <sys/stat.h>
#include <sys/un.h>
#include <sys/ioctl.h>
#include <sys/uio.h>
#include <sys/time.h>
#include <sys/syscall.h>
#include <netinet/in.h>
#include <netinet/tcp.h>
#include <arpa/inet.h>
#include <linux/futex.h>
#include "simk.h"

extern "C" {
void AnnotateIgnoreReadsBegin(const char*,int) __attribute__((weak));
void AnnotateIgnoreReadsEnd(const char*,int) __attribute__((weak));
void AnnotateIgnoreWritesBegin(const char*,int) __attribute__((weak));
void AnnotateIgnoreWritesEnd(const char*,int) __attribute__((weak));
}
extern "C" { void AnnotateHappensBefore(const char*,int,const volatile void*) __attribute__((weak)); void AnnotateHappensAfter(const char*,int,const volatile void*) __attribute__((weak)); }
namespace simk { void hb_release(const void *t){ if(AnnotateHappensBefore) AnnotateHappensBefore(__FILE__,__LINE__,t); } void hb_acquire(const void *t){ if(AnnotateHappensAfter) AnnotateHappensAfter(__FILE__,__LINE__,t); } }
namespace {
struct Ign {
	Ign() { if(AnnotateIgnoreReadsBegin) { AnnotateIgnoreReadsBegin(__FILE__,__LINE__); AnnotateIgnoreWritesBegin(__FILE__,__LINE__); } }
	~Ign() { if(AnnotateIgnoreReadsBegin) { AnnotateIgnoreWritesEnd(__FILE__,__LINE__); AnnotateIgnoreReadsEnd(__FILE__,__LINE__); } }
};
}
#define IGN Ign ign_guard_

extern "C" {
int __real_pthread_mutex_lock(pthread_mutex_t*); int __real_pthread_mutex_unlock(pthread_mutex_t*);
int __real_pthread_rwlock_rdlock(pthread_rwlock_t*); int __real_pthread_rwlock_wrlock(pthread_rwlock_t*);
int __real_pthread_rwlock_unlock(pthread_rwlock_t*);
int __real_pthread_rwlock_tryrdlock(pthread_rwlock_t*); int __real_pthread_rwlock_trywrlock(pthread_rwlock_t*);
int __real_close(int); ssize_t __real_read(int,void*,size_t); ssize_t __real_write(int,const void*,size_t);
ssize_t __real_readv(int,const struct iovec*,int); ssize_t __real_writev(int,const struct iovec*,int);
int __real_fcntl(int,int,...); int __real_ioctl(int,unsigned long,...);
int __real_open(const char*,int,...); off_t __real_lseek(int,off_t,int); int __real_unlink(const char*);
int __real_stat(const char*,struct stat*); int __real_fstat(int,struct stat*); int __real_mkdir(const char*,mode_t);
DIR *__real_opendir(const char*); int __real_readdir_r(DIR*,struct dirent*,struct dirent**); int __real_closedir(DIR*);
int __real_rename(const char*,const char*);
FILE *__real_fopen(const char*,const char*); size_t __real_fwrite(const void*,size_t,size_t,FILE*); int __real_fflush(FILE*); int __real_fclose(FILE*);
int __real_fseek(FILE*,long,int); int __real_fseeko(FILE*,off_t,int);
time_t __real_time(time_t*); int __real_gettimeofday(struct timeval*,void*); int __real_nanosleep(const struct timespec*,struct timespec*);
int __real_socket(int,int,int); int __real_bind(int,const struct sockaddr*,socklen_t); int __real_listen(int,int);
int __real_accept(int,struct sockaddr*,socklen_t*); int __real_connect(int,const struct sockaddr*,socklen_t);
int __real_shutdown(int,int); int __real_pipe(int[2]); int __real_socketpair(int,int,int,int[2]);
int __real_setsockopt(int,int,int,const void*,socklen_t); int __real_getsockopt(int,int,int,void*,socklen_t*);
int __real_getsockname(int,struct sockaddr*,socklen_t*); int __real_getpeername(int,struct sockaddr*,socklen_t*);
int __real_poll(struct pollfd*,nfds_t,int); int __real_select(int,fd_set*,fd_set*,fd_set*,struct timeval*);
int __real_epoll_create(int); int __real_epoll_ctl(int,int,int,struct epoll_event*); int __real_epoll_wait(int,struct epoll_event*,int,int);
}

namespace simk {

// ================================================================ scheduler
static long fut(std::atomic<int>*a,int op,int v){ return syscall(SYS_futex,(int*)a,op,v,nullptr,nullptr,0); }

struct Thread {
	int id = 0; std::atomic<int> go{0};
	enum St { RUN, BLK, DONE } st = RUN;
	std::function<bool()> ready;
	int64_t deadline = -1;
	bool timed_out = false;
	const char *why = "";
	int node = 0;
	int64_t prio = 0;
	int exit_round = 0;
};

static std::vector<Thread*> threads;
static __thread Thread *self = nullptr;
static bool g_active = false;
static Params P;
static Stats S;
static Rng sched_rng, frng, erng;
static bool g_fwf_armed=false, g_fwf_failing=false; static int g_fwf_skip=0, g_fwf_errno=0;   // armed file-write fault (simulated file system)
static std::vector<std::string> g_entropy_opens;   // per open() of the simulated /dev/urandom that has been closed again: the bytes it was served, in order
static int64_t g_now_us = 0;
static uint64_t g_hash = 0;
static std::string g_text;
static std::vector<Actor*> actors;
static std::vector<int64_t> actor_prio;
static bool in_actor = false;
static size_t tape_pos = 0;
static std::vector<uint64_t> pct_points;
static int pct_next = 0;
static int last_choice = 0;
static std::map<int,int64_t> node_skew;
static std::vector<int> guided_tape, pending_tape, recorded; static bool guided=false, pending_guided=false, record_on=false; static size_t dec_i=0;
void set_guided_tape(const std::vector<int> &t){ pending_tape=t; pending_guided=true; }
void set_record_schedule(bool on){ record_on=on; }
const std::vector<int> &recorded_schedule(){ return recorded; }

void (*on_fatal)(const char *cls,const std::string &msg) = nullptr;

int self_id(){ return self ? self->id : -1; }
bool active(){ return g_active; }
bool in_sim(){ return g_active && self; }
Stats &stats(){ return S; }
uint64_t trace_hash(){ return g_hash; }
void trace_mix(uint64_t v){ g_hash = (g_hash ^ v) * 1099511628211ULL; }
Rng &fault_rng(){ return frng; }
Rng &entropy_rng(){ return erng; }
const std::vector<std::string> &entropy_by_open(){ return g_entropy_opens; }
void arm_file_write_fault(int skip,int err){ g_fwf_armed=true; g_fwf_failing=false; g_fwf_skip=skip<0?0:skip; g_fwf_errno=err; }
void disarm_file_write_fault(){ g_fwf_armed=false; g_fwf_failing=false; }
const std::string &trace_text(){ return g_text; }
void tracef(const char *fmt,...){
	if(!P.text_trace) return;
	IGN;
	char b[512]; int n = snprintf(b,sizeof(b),"[%lu t%d %ld] ",(unsigned long)S.steps,self_id(),(long)(g_now_us - P.start_time_s*1000000LL));
	va_list ap; va_start(ap,fmt); vsnprintf(b+n,sizeof(b)-n,fmt,ap); va_end(ap);
	g_text += b; g_text += '\n';
}
int64_t now_us(){ return g_now_us; }
void advance_us(int64_t d){ IGN; g_now_us += d; S.clock_jumps++; trace_mix(0xC10C ^ (uint64_t)d); tracef("clock += %ld us",(long)d); }
void set_node(int n){ if(self) self->node = n; }
void set_node_skew_us(int n,int64_t sk){ node_skew[n] = sk; }
static int64_t node_now(){ int64_t t = g_now_us; if(self && !node_skew.empty()) { auto p = node_skew.find(self->node); if(p != node_skew.end()) t += p->second; } return t; }

static void park(Thread*t){ while(t->go.load(std::memory_order_relaxed)==0) fut(&t->go,FUTEX_WAIT_PRIVATE,0); t->go.store(0,std::memory_order_relaxed); }
static void unpark(Thread*t){ t->go.store(1,std::memory_order_relaxed); fut(&t->go,FUTEX_WAKE_PRIVATE,1); }

std::string describe_fds();
std::string dump_state(){
	std::string r; char b[256];
	for(auto t:threads){ snprintf(b,sizeof(b)," t%d st=%s why=%s deadline=%ld\n",t->id,t->st==Thread::RUN?"RUN":t->st==Thread::BLK?"BLK":"DONE",t->why,(long)t->deadline); r+=b; }
	for(size_t i=0;i<actors.size();i++){ snprintf(b,sizeof(b)," actor%zu(%s) enabled=%d next=%ld\n",i,actors[i]->name(),(int)actors[i]->enabled(),(long)actors[i]->next_time()); r+=b; }
	r += describe_fds();
	return r;
}
void fatal(const char *cls,const std::string &msg){
	if(on_fatal) on_fatal(cls,msg);
	fprintf(stderr,"simk fatal %s: %s\n",cls,msg.c_str());
	_exit(3);
}

static void schedule(){
	Thread *me = self;
	static std::vector<int> cand;
	for(;;){
		S.steps++;
		g_now_us += P.tick_us;
		if(S.steps > P.max_steps) fatal("steplimit","step limit exceeded\n"+dump_state());
		cand.clear();
		for(auto t:threads){
			if(t->st==Thread::RUN) cand.push_back(t->id);
			else if(t->st==Thread::BLK){
				if(t->ready && t->ready()) cand.push_back(t->id);
				else if(t->deadline>=0 && t->deadline<=g_now_us){ cand.push_back(t->id); }
			}
		}
		for(size_t i=0;i<actors.size();i++) if(actors[i]->enabled()) cand.push_back(-(int)i-1);
		if(cand.empty()){
			int64_t next=-1;
			for(auto t:threads) if(t->st==Thread::BLK && t->deadline>=0 && (next<0||t->deadline<next)) next=t->deadline;
			for(auto a:actors){ int64_t d=a->next_time(); if(d>=0 && (next<0||d<next)) next=d; }
			if(next<0) fatal("deadlock","no runnable thread, no enabled actor, no timer\n"+dump_state());
			if(next>g_now_us){ g_now_us=next; }
			else g_now_us += 1;   // an actor announced a time that has passed but is not enabled: crawl
			continue;
		}
		int c;
		if(guided){
			int want = dec_i < guided_tape.size() ? guided_tape[dec_i] : SCHED_DEFAULT; dec_i++; c = SCHED_DEFAULT;
			if(want != SCHED_DEFAULT) for(int x:cand) if(x==want) c=x;
			if(c==SCHED_DEFAULT){ for(int x:cand) if(x==last_choice) c=x; }
			if(c==SCHED_DEFAULT){ c=cand[0]; for(int x:cand){ bool better = (x>=0 && (c<0 || x<c)) || (x<0 && c<0 && x>c); if(better) c=x; } }
		}
		else if(tape_pos < P.tape.size()) c = cand[P.tape[tape_pos++] % cand.size()];
		else if(cand.size()==1) c = cand[0];
		else switch(P.strategy){
		case S_RUN_TO_BLOCK: {
			bool cont=false; for(int x:cand) if(x==last_choice && x>=0) cont=true;
			c = cont ? last_choice : cand[sched_rng.below(cand.size())];
		} break;
		case S_PCT: {
			if(pct_next < (int)pct_points.size() && S.steps >= pct_points[pct_next]){
				int64_t np = (int64_t)P.pct_depth - 1 - pct_next; pct_next++;
				if(last_choice>=0 && last_choice<(int)threads.size()) threads[last_choice]->prio = np;
				else if(last_choice<0 && (size_t)(-last_choice-1)<actor_prio.size()) actor_prio[-last_choice-1] = np;
			}
			int64_t best=-1; c=cand[0];
			for(int x:cand){ int64_t p = x>=0 ? threads[x]->prio : actor_prio[-x-1]; if(p>best){ best=p; c=x; } }
		} break;
		default: c = cand[sched_rng.below(cand.size())];
		}
		trace_mix((uint64_t)(c+1000));
		if(record_on) recorded.push_back(c);
		if(c!=last_choice) S.switches++;
		last_choice = c;
		if(c<0){ in_actor=true; actors[-c-1]->step(); in_actor=false; continue; }
		Thread *n=threads[c];
		if(n->st==Thread::BLK){
			n->timed_out = !(n->ready && n->ready());
			n->st=Thread::RUN;
		}
		if(n==me) return;
		unpark(n);
		if(me->st==Thread::DONE) return;
		park(me);
		return;
	}
}
TsanIgnore::TsanIgnore(){ if(AnnotateIgnoreReadsBegin){ AnnotateIgnoreReadsBegin(__FILE__,__LINE__); AnnotateIgnoreWritesBegin(__FILE__,__LINE__); } }
TsanIgnore::~TsanIgnore(){ if(AnnotateIgnoreReadsBegin){ AnnotateIgnoreWritesEnd(__FILE__,__LINE__); AnnotateIgnoreReadsEnd(__FILE__,__LINE__); } }
void yield(){ if(!in_sim()||in_actor) return; IGN; schedule(); }
bool block(std::function<bool()> pred,int64_t deadline,const char*why){
	IGN;
	if(in_actor) fatal("internal",std::string("actor step tried to block: ")+why);
	self->st=Thread::BLK; self->ready=std::move(pred); self->deadline=deadline; self->timed_out=false; self->why=why;
	schedule();
	self->ready=nullptr; bool to=self->timed_out; self->timed_out=false; self->deadline=-1; self->why="";
	return !to;
}
void sleep_us(int64_t d){ if(!in_sim()) return; block([]{return false;},g_now_us+d,"sleep"); }

void add_actor(Actor *a){ actors.push_back(a); actor_prio.push_back(P.pct_depth + (int64_t)sched_rng.below(1<<20)); }
void clear_actors(){ actors.clear(); actor_prio.clear(); }

// ---- per-run state of primitives (cleared in begin)
struct MState { int owner=-1; int count=0; };
static std::unordered_map<void*,MState> mtx;
struct CWait { Thread *t; bool signaled=false; };
static std::unordered_map<void*,std::vector<std::shared_ptr<CWait>>> cwait;
struct RW { int writer=-1; std::vector<int> readers; };
static std::unordered_map<void*,RW> rws;
static std::map<std::thread::native_handle_type,int> by_handle;

static void fs_reset();
static void fd_reset();
std::map<std::string,uint64_t> &probes();

void begin(const Params &p){
	P = p; S = Stats();
	sched_rng.seed(p.sched_seed); frng.seed(p.fault_seed ^ 0xFA17); erng.seed(p.fault_seed ^ 0xE27809); g_entropy_opens.clear(); g_fwf_armed=false; g_fwf_failing=false;
	g_now_us = p.start_time_s * 1000000LL; g_hash = 1469598103934665603ULL; g_text.clear();
	for(auto t:threads) delete t;
	threads.clear(); actors.clear(); actor_prio.clear(); in_actor=false; tape_pos=0; last_choice=0;
	mtx.clear(); cwait.clear(); rws.clear(); by_handle.clear(); node_skew.clear();
	pct_points.clear(); pct_next=0;
	guided=pending_guided; guided_tape=pending_tape; pending_guided=false; pending_tape.clear(); dec_i=0; recorded.clear();
	if(p.strategy==S_PCT){ for(int i=0;i<p.pct_depth-1;i++) pct_points.push_back(1+sched_rng.below(p.pct_len>0?p.pct_len:1)); std::sort(pct_points.begin(),pct_points.end()); }
	fs_reset(); fd_reset(); probes().clear();
	auto *t=new Thread; t->id=0; t->prio = p.pct_depth + (int64_t)sched_rng.below(1<<20); threads.push_back(t); self=t; g_active=true;
}
void end(){
	for(auto t:threads) if(t!=self && t->st!=Thread::DONE) fatal("internal","simk::end with live threads\n"+dump_state());
	S.fd_leaks = open_sim_fds();
	g_active=false; self=nullptr;
	fd_reset();
}

} // namespace simk
using namespace simk;

// ================================================================ threads & sync wrappers
// lock audit: which synchronisation objects the code under test takes (the harness asks where they live: a process-shared cache has to keep them in shared memory)
static std::set<const void*> g_lock_audit; static bool g_lock_audit_on=false;
namespace simk { void lock_audit(bool on){ g_lock_audit_on=on; if(on) g_lock_audit.clear(); } std::vector<const void*> audited_locks(){ return std::vector<const void*>(g_lock_audit.begin(),g_lock_audit.end()); } }
static bool is_recursive(pthread_mutex_t*m){ return (m->__data.__kind & 3)==PTHREAD_MUTEX_RECURSIVE_NP; }
extern "C" int __wrap_pthread_mutex_lock(pthread_mutex_t*m){ IGN;
	if(g_lock_audit_on) g_lock_audit.insert(m);
	if(!in_sim()) return __real_pthread_mutex_lock(m);
	if(in_actor){ auto it=mtx.find(m); if(it!=mtx.end()&&it->second.owner!=-1) fatal("internal","actor step needs a mutex held by a parked thread\n"+dump_state()); return __real_pthread_mutex_lock(m); }
	yield();
	int me=self_id();
	MState *s=&mtx[m];
	if(s->owner==me && is_recursive(m)){ s->count++; return __real_pthread_mutex_lock(m); }
	if(s->owner!=-1){
		if(s->owner==me) fatal("deadlock","thread relocks a non-recursive mutex it owns\n"+dump_state());
		S.mutex_contended++;
		block([m]{ return mtx[m].owner==-1; },-1,"mutex");
		s=&mtx[m];
	}
	s->owner=me; s->count=1;
	return __real_pthread_mutex_lock(m);
}
extern "C" int __wrap_pthread_mutex_unlock(pthread_mutex_t*m){ IGN;
	if(!in_sim()||in_actor) return __real_pthread_mutex_unlock(m);
	int r=__real_pthread_mutex_unlock(m);
	MState &s=mtx[m]; if(--s.count<=0){ s.owner=-1; s.count=0; }
	yield(); return r;
}
extern "C" void __real__ZNSt18condition_variable4waitERSt11unique_lockISt5mutexE(std::condition_variable*,std::unique_lock<std::mutex>&);
extern "C" void __real__ZNSt18condition_variable10notify_allEv(std::condition_variable*);
extern "C" void __real__ZNSt18condition_variable10notify_oneEv(std::condition_variable*);
extern "C" void __wrap__ZNSt18condition_variable4waitERSt11unique_lockISt5mutexE(std::condition_variable*cv,std::unique_lock<std::mutex>&l){ IGN;
	if(!in_sim()){ __real__ZNSt18condition_variable4waitERSt11unique_lockISt5mutexE(cv,l); return; }
	pthread_mutex_t *m=l.mutex()->native_handle();
	__real_pthread_mutex_unlock(m); mtx[m].owner=-1; mtx[m].count=0;
	S.cv_waits++;
	if(P.p_cv_spurious && frng.chance(P.p_cv_spurious)){ S.cv_spurious++; yield(); }
	else {
		auto w=std::make_shared<CWait>(); w->t=self; cwait[cv].push_back(w);
		block([w]{ return w->signaled; },-1,"cond");
	}
	if(mtx[m].owner!=-1){ S.mutex_contended++; block([m]{ return mtx[m].owner==-1; },-1,"cond-relock"); }
	mtx[m].owner=self_id(); mtx[m].count=1; __real_pthread_mutex_lock(m);
}
extern "C" void __wrap__ZNSt18condition_variable10notify_allEv(std::condition_variable*cv){ IGN;
	if(!in_sim()){ __real__ZNSt18condition_variable10notify_allEv(cv); return; }
	auto it=cwait.find(cv); if(it!=cwait.end()){ for(auto&w:it->second) w->signaled=true; it->second.clear(); }
	yield();
}
extern "C" void __wrap__ZNSt18condition_variable10notify_oneEv(std::condition_variable*cv){ IGN;
	if(!in_sim()){ __real__ZNSt18condition_variable10notify_oneEv(cv); return; }
	auto it=cwait.find(cv); if(it!=cwait.end() && !it->second.empty()){ auto &v=it->second; size_t i=guided ? 0 : sched_rng.below(v.size()); trace_mix(0xC0+i); v[i]->signaled=true; v.erase(v.begin()+i); }
	yield();
}
using StatePtr = std::unique_ptr<std::thread::_State>;
extern "C" void __real__ZNSt6thread15_M_start_threadESt10unique_ptrINS_6_StateESt14default_deleteIS1_EEPFvvE(std::thread*,StatePtr*,void(*)());
namespace {
struct SimState : std::thread::_State { StatePtr inner; simk::Thread *t;
	void _M_run() override {
		simk::self=t; simk::park(t);
		inner->_M_run();
		{ IGN; inner.reset(); }
		// The thread stays a scheduled sim thread while its thread-specific data is destroyed (booster::thread_specific_ptr
		// destructors close sockets): it is marked DONE only by our own key destructor, in the round after all others ran.
		pthread_once(&exit_once,make_exit_key); t->exit_round=0; pthread_setspecific(exit_key,t);
	}
	static pthread_key_t exit_key; static pthread_once_t exit_once;
	static void make_exit_key(){ pthread_key_create(&exit_key,on_thread_exit); }
	static void on_thread_exit(void *p){ simk::Thread *t=(simk::Thread*)p;
		if(t->exit_round++ == 0){ pthread_setspecific(exit_key,t); return; }     // let every other destructor of this round run first
		IGN; t->st=simk::Thread::DONE; simk::schedule(); simk::self=nullptr; }
};
pthread_key_t SimState::exit_key; pthread_once_t SimState::exit_once = PTHREAD_ONCE_INIT;
}
extern "C" void __wrap__ZNSt6thread15_M_start_threadESt10unique_ptrINS_6_StateESt14default_deleteIS1_EEPFvvE(std::thread*th,StatePtr*st,void(*f)()){
	if(!in_sim()){ __real__ZNSt6thread15_M_start_threadESt10unique_ptrINS_6_StateESt14default_deleteIS1_EEPFvvE(th,st,f); return; }
	simk::Thread *t;
	{ IGN;
	if(in_actor) fatal("internal","actor step created a thread");
	t=new simk::Thread; t->id=(int)simk::threads.size(); t->node=self->node; t->prio=P.pct_depth+(int64_t)sched_rng.below(1<<20); simk::threads.push_back(t); S.threads_created++;
	}
	auto*s=new SimState; s->inner=std::move(*st); s->t=t; StatePtr p(s);
	__real__ZNSt6thread15_M_start_threadESt10unique_ptrINS_6_StateESt14default_deleteIS1_EEPFvvE(th,&p,f);
	{ IGN; by_handle[th->native_handle()]=t->id; yield(); }
}
extern "C" void __real__ZNSt6thread4joinEv(std::thread*);
extern "C" void __wrap__ZNSt6thread4joinEv(std::thread*th){
	{ IGN;
	if(in_sim()){
		auto it=by_handle.find(th->native_handle());
		if(it!=by_handle.end()){ int id=it->second; by_handle.erase(it);
			if(simk::threads[id]->st!=simk::Thread::DONE) block([id]{ return simk::threads[id]->st==simk::Thread::DONE; },-1,"join"); }
	} }
	__real__ZNSt6thread4joinEv(th);
}
// rwlocks
static bool holds_read(RW&s,int me){ for(int r:s.readers) if(r==me) return true; return false; }
extern "C" int __wrap_pthread_rwlock_rdlock(pthread_rwlock_t*l){ IGN;
	if(g_lock_audit_on) g_lock_audit.insert(l);
	if(!in_sim()||in_actor) return __real_pthread_rwlock_rdlock(l);
	yield();
	if(rws[l].writer!=-1){ if(rws[l].writer==self_id()) fatal("deadlock","rdlock while holding wrlock\n"+dump_state()); S.rw_contended++; block([l]{return rws[l].writer==-1;},-1,"rdlock"); }
	rws[l].readers.push_back(self_id()); return __real_pthread_rwlock_rdlock(l);
}
extern "C" int __wrap_pthread_rwlock_wrlock(pthread_rwlock_t*l){ IGN;
	if(g_lock_audit_on) g_lock_audit.insert(l);
	if(!in_sim()||in_actor) return __real_pthread_rwlock_wrlock(l);
	yield();
	RW &s=rws[l];
	if(s.writer!=-1||!s.readers.empty()){
		if(s.writer==self_id()||holds_read(s,self_id())) fatal("deadlock","wrlock while holding the same rwlock\n"+dump_state());
		S.rw_contended++; block([l]{return rws[l].writer==-1&&rws[l].readers.empty();},-1,"wrlock"); }
	rws[l].writer=self_id(); return __real_pthread_rwlock_wrlock(l);
}
extern "C" int __wrap_pthread_rwlock_tryrdlock(pthread_rwlock_t*l){ IGN;
	if(!in_sim()||in_actor) return __real_pthread_rwlock_tryrdlock(l);
	yield(); if(rws[l].writer!=-1) return EBUSY; rws[l].readers.push_back(self_id()); return __real_pthread_rwlock_tryrdlock(l);
}
extern "C" int __wrap_pthread_rwlock_trywrlock(pthread_rwlock_t*l){ IGN;
	if(!in_sim()||in_actor) return __real_pthread_rwlock_trywrlock(l);
	yield(); RW&s=rws[l]; if(s.writer!=-1||!s.readers.empty()) return EBUSY; s.writer=self_id(); return __real_pthread_rwlock_trywrlock(l);
}
extern "C" int __wrap_pthread_rwlock_unlock(pthread_rwlock_t*l){ IGN;
	if(!in_sim()||in_actor) return __real_pthread_rwlock_unlock(l);
	int r=__real_pthread_rwlock_unlock(l); RW&s=rws[l]; int me=self_id();
	if(s.writer==me) s.writer=-1; else { for(size_t i=s.readers.size();i-->0;) if(s.readers[i]==me){ s.readers.erase(s.readers.begin()+i); break; } }
	yield(); return r;
}

// ================================================================ clock
extern "C" time_t __wrap_time(time_t*t){ IGN; if(!g_active) return __real_time(t); time_t v=node_now()/1000000; if(t)*t=v; return v; }
extern "C" int __wrap_gettimeofday(struct timeval*tv,void*tz){ IGN; if(!g_active) return __real_gettimeofday(tv,tz); int64_t n=node_now(); tv->tv_sec=n/1000000; tv->tv_usec=n%1000000; return 0; }
extern "C" int __wrap_nanosleep(const struct timespec*ts,struct timespec*rem){ IGN; if(!in_sim()) return __real_nanosleep(ts,rem);
	int64_t d=g_now_us+ts->tv_sec*1000000LL+ts->tv_nsec/1000; block([]{return false;},d,"sleep"); return 0; }

// ================================================================ descriptors
namespace simk {
struct Obj {
	enum Kind { UNBOUND, LISTENER, STREAM, EPOLL, FILE_, URANDOM, CONNECTING } kind = UNBOUND; int so_error = 0; bool conn_failed = false; std::string connect_to;   /* CONNECTING: a non-blocking connect() answered EINPROGRESS; an environment actor completes it (complete_connect) */ bool pipe_end = false; std::string served;   /* URANDOM: what this descriptor was served */
	bool nonblock=false; int family=0; int socktype=SOCK_STREAM; std::string addr;
	std::shared_ptr<bool> reset;
	std::shared_ptr<Chan> rx,tx;
	std::deque<std::shared_ptr<Obj>> backlog;
	std::map<int,std::pair<uint32_t,uint64_t>> interest;   // epoll: fd -> (events, data)
	int64_t sndtimeo_us=0, rcvtimeo_us=0;
	std::shared_ptr<FsFile> file; std::string path; uint64_t pos=0; int oflags=0;
	int lock_node=-1; bool accepted=false; int conn_node=-1;   // conn_node: node of the thread that connected this (client side) stream
};
static std::vector<std::shared_ptr<Obj>> fdtab;
static std::map<std::string,int> listeners;
static std::set<std::pair<int,std::string>> cut_links;
static std::shared_ptr<Obj> get(int fd){ if(fd<0||(size_t)fd>=fdtab.size()) return nullptr; return fdtab[fd]; }
static int newfd(std::shared_ptr<Obj> o){
	int fd=__real_open("/dev/null",O_RDONLY);
	if(fd<0) fatal("internal","cannot reserve a descriptor");
	if((size_t)fd>=fdtab.size()) fdtab.resize(fd+64);
	fdtab[fd]=o; return fd;
}
static void fd_reset(){ for(size_t i=0;i<fdtab.size();i++) if(fdtab[i]){ __real_close((int)i); fdtab[i].reset(); } listeners.clear(); cut_links.clear(); }
int open_sim_fds(){ int n=0; for(auto&o:fdtab) if(o) n++; return n; }
// partition fault: the link between the threads of one node and one listening address. Cutting it resets the established connections of that
// node to that address and refuses new ones until it is healed; the listener and everybody else are not affected.
void set_link_cut(int node,const std::string &addr,bool cut){
	if(!cut){ cut_links.erase({node,addr}); tracef("fault: link node %d - %s healed",node,addr.c_str()); return; }
	cut_links.insert({node,addr}); trace_mix(0x9A27+node); S.partitions++; tracef("fault: link node %d - %s cut",node,addr.c_str());
	for(auto&o:fdtab) if(o&&o->kind==Obj::STREAM&&!o->accepted&&o->conn_node==node&&o->addr==addr&&o->reset&&!*o->reset) *o->reset=true; }
int unconsumed_resets(){ int n=0; for(auto&o:fdtab) if(o&&o->kind==Obj::STREAM&&!o->accepted&&o->reset&&*o->reset) n++; return n; }   // connecting-side sockets that were reset and not yet closed by their owner
bool reset_accepted_stream(uint64_t pick){ std::vector<Obj*> v; for(auto&o:fdtab) if(o&&o->accepted&&o->kind==Obj::STREAM&&!*o->reset) v.push_back(o.get()); if(v.empty()) return false; Obj*o=v[pick%v.size()]; *o->reset=true; trace_mix(0xEE5E7); tracef("fault: connection reset injected"); return true; }
int connecting_count(){ int n=0; for(auto&o:fdtab) if(o&&o->kind==Obj::CONNECTING) n++; return n; }
static void make_pair(std::shared_ptr<Obj>&a,std::shared_ptr<Obj>&b,size_t cap_ab,size_t cap_ba);
// completes one pending non-blocking connect (picked by the caller's number): the connection is established if somebody listens at the address now, refused otherwise
bool complete_connect(uint64_t pick){ std::vector<std::shared_ptr<Obj>> v; for(auto&o:fdtab) if(o&&o->kind==Obj::CONNECTING) v.push_back(o); if(v.empty()) return false; auto o=v[pick%v.size()];
	auto it=listeners.find(o->connect_to); trace_mix(0xC0223);
	if(it==listeners.end() || cut_links.count({o->conn_node,o->connect_to})){ o->kind=Obj::UNBOUND; o->conn_failed=true; o->so_error=ECONNREFUSED; tracef("connect to %s completed: refused",o->connect_to.c_str()); return true; }
	auto l=get(it->second); auto srv=std::make_shared<Obj>(); bool nb=o->nonblock; int fam=o->family; std::string a=o->connect_to;
	make_pair(o,srv,P.default_chan_cap,P.default_chan_cap); o->nonblock=nb; o->family=fam; srv->family=l->family; srv->addr=l->addr; o->addr=a; l->backlog.push_back(srv); S.connects++; tracef("connect to %s completed: established",a.c_str()); return true; }
int open_accepted_fds(){ int n=0; for(auto&o:fdtab) if(o&&o->accepted) n++; return n; }
std::string describe_fds(){
	std::string r; char b[256];
	for(size_t i=0;i<fdtab.size();i++) if(fdtab[i]){ Obj&o=*fdtab[i];
		static const char*kn[]={"unbound","listener","stream","epoll","file","urandom"};
		snprintf(b,sizeof(b)," fd%zu %s addr=%s nb=%d rx=%zu%s tx=%zu/%zu%s%s\n",i,kn[o.kind],(o.addr.empty()?o.path:o.addr).c_str(),(int)o.nonblock,
			o.rx?o.rx->size():0,o.rx&&o.rx->wr_closed?"(eof)":"",o.tx?o.tx->size():0,o.tx?o.tx->cap:0,o.tx&&o.tx->rd_closed?"(peer-gone)":"",o.reset&&*o.reset?" RESET":"");
		r+=b; }
	return r;
}
static std::string addr_str(const struct sockaddr*sa){
	char b[160];
	if(sa->sa_family==AF_INET){ snprintf(b,sizeof(b),"tcp:%d",ntohs(((const sockaddr_in*)sa)->sin_port)); return b; }
	if(sa->sa_family==AF_INET6){ snprintf(b,sizeof(b),"tcp:%d",ntohs(((const sockaddr_in6*)sa)->sin6_port)); return b; }
	if(sa->sa_family==AF_UNIX){ return std::string("unix:")+((const sockaddr_un*)sa)->sun_path; }
	return "?";
}
static bool pipe_read_end(Obj&o){ return o.pipe_end && o.kind==Obj::STREAM && o.rx && o.rx->cap>0; }
// the read end of a pipe whose last writer has gone and that holds no data reports a hang-up only (POLLHUP / EPOLLHUP without the "in" bit); select() counts that as readable
static bool readable(Obj&o){ if(o.conn_failed) return true; if(pipe_read_end(o)) return !o.rx->empty(); switch(o.kind){ case Obj::STREAM: return !o.rx->empty()||o.rx->wr_closed||*o.reset; case Obj::LISTENER: return !o.backlog.empty(); case Obj::FILE_: case Obj::URANDOM: return true; default: return false; } }
static bool writable(Obj&o){ if(o.conn_failed) return true; switch(o.kind){ case Obj::STREAM: return o.tx->room()>0||o.tx->rd_closed||*o.reset; case Obj::FILE_: return true; default: return false; } }
// hang-up as Linux reports it: a local (AF_UNIX) stream or pipe hangs up when the peer has closed; a TCP socket only when BOTH directions are shut - the peer's FIN alone
// gives "readable" (data, then end of file), POLLHUP comes once this side has shut down its sending side too - or after a reset
static bool hup(Obj&o){ if(o.conn_failed) return true; if(o.kind!=Obj::STREAM) return false; if(pipe_read_end(o)) return o.rx->wr_closed; if(*o.reset) return true; if(o.family==AF_UNIX) return o.rx->wr_closed && o.tx->rd_closed; return o.rx->wr_closed && o.tx->wr_closed; }
static bool err(Obj&o){ return o.conn_failed || (o.kind==Obj::STREAM && *o.reset); }

static void make_pair(std::shared_ptr<Obj>&a,std::shared_ptr<Obj>&b,size_t cap_ab,size_t cap_ba){
	auto x=std::make_shared<Chan>(),y=std::make_shared<Chan>(); x->cap=cap_ab; y->cap=cap_ba;
	auto rs=std::make_shared<bool>(false);
	a->kind=Obj::STREAM; a->tx=x; a->rx=y; a->reset=rs;
	b->kind=Obj::STREAM; b->tx=y; b->rx=x; b->reset=rs;
}
size_t Conn::send(const char *p,size_t n){ if(*reset||tx->rd_closed) return 0; size_t k=std::min(n,tx->room()); tx->push(p,k); tx->total_in+=k; return k; }
size_t Conn::recv(std::string &out,size_t max){ size_t k=std::min(max,rx->size()); size_t o=out.size(); out.resize(o+k); rx->pop(&out[o],k); return k; }
std::shared_ptr<Conn> client_connect(const std::string &addr,size_t cap_to_server,size_t cap_to_client){
	auto it=listeners.find(addr); if(it==listeners.end()) return nullptr; auto l=get(it->second); if(!l) return nullptr;
	auto srv=std::make_shared<Obj>(); auto cli=std::make_shared<Obj>();
	make_pair(cli,srv,cap_to_server,cap_to_client);
	srv->family=l->family; srv->addr=l->addr;
	l->backlog.push_back(srv); S.connects++;
	auto c=std::make_shared<Conn>(); c->rx=cli->rx; c->tx=cli->tx; c->reset=cli->reset; return c;
}
bool is_listening(const std::string &addr){ return listeners.count(addr)!=0; }
} // ns

#define SIMFD(o,fd) auto o = g_active ? get(fd) : nullptr

extern "C" int __wrap_socket(int dom,int type,int proto){ IGN;
	if(!in_sim()) return __real_socket(dom,type,proto);
	yield(); auto o=std::make_shared<Obj>(); o->kind=Obj::UNBOUND; o->family=dom; o->socktype=type&0xf; o->nonblock=(type&SOCK_NONBLOCK)!=0; o->reset=std::make_shared<bool>(false);
	int fd=newfd(o); tracef("socket -> %d",fd); return fd; }
extern "C" int __wrap_bind(int fd,const struct sockaddr*sa,socklen_t len){ IGN; SIMFD(o,fd); if(!o) return __real_bind(fd,sa,len);
	o->addr=addr_str(sa); if(listeners.count(o->addr)){ errno=EADDRINUSE; return -1; } return 0; }
extern "C" int __wrap_listen(int fd,int n){ IGN; SIMFD(o,fd); if(!o) return __real_listen(fd,n);
	o->kind=Obj::LISTENER; listeners[o->addr]=fd; tracef("listen %s fd=%d",o->addr.c_str(),fd); return 0; }
static void fill_addr(Obj&o,struct sockaddr*sa,socklen_t*len,bool peer){
	if(!sa||!len) return;
	if(o.family==AF_UNIX){ sockaddr_un un; memset(&un,0,sizeof(un)); un.sun_family=AF_UNIX; socklen_t l=sizeof(sa_family_t); memcpy(sa,&un,std::min<socklen_t>(*len,l)); *len=l; return; }
	sockaddr_in in; memset(&in,0,sizeof(in)); in.sin_family=AF_INET; in.sin_port=htons(peer?40000:8080); in.sin_addr.s_addr=htonl(0x7f000001);
	memcpy(sa,&in,std::min<socklen_t>(*len,sizeof(in))); *len=sizeof(in);
}
extern "C" int __wrap_accept(int fd,struct sockaddr*sa,socklen_t*len){ IGN; SIMFD(o,fd); if(!o) return __real_accept(fd,sa,len);
	yield(); if(o->kind!=Obj::LISTENER){errno=EINVAL;return -1;}
	if(P.p_eintr && frng.chance(P.p_eintr)){ S.eintr++; errno=EINTR; return -1; }
	if(o->nonblock && !o->backlog.empty() && P.p_spurious && frng.chance(P.p_spurious)){ S.spurious++; S.accept_spurious++; trace_mix(0xE6); errno=EAGAIN; tracef("accept %d spurious EAGAIN (as if another acceptor on this listening socket had taken the connection)",fd); return -1; }
	if(o->backlog.empty()){ if(o->nonblock){errno=EAGAIN;return -1;} block([o]{return !o->backlog.empty();},-1,"accept"); }
	{ uint64_t i=S.accepts+S.accept_emfile; for(uint32_t x:P.accept_fail_at) if(x==i){ S.accept_emfile++; trace_mix(0xACCE97+i); tracef("accept %d: EMFILE (injected)",fd); errno=EMFILE; return -1; } }
	auto s=o->backlog.front(); o->backlog.pop_front(); fill_addr(*s,sa,len,true); S.accepts++; s->accepted=true;
	int n=newfd(s); tracef("accept %d -> %d",fd,n); return n; }
extern "C" int __wrap_connect(int fd,const struct sockaddr*sa,socklen_t len){ IGN; SIMFD(o,fd); if(!o) return __real_connect(fd,sa,len);
	yield(); std::string a=addr_str(sa); auto it=listeners.find(a);
	if(it==listeners.end() && o->nonblock && P.p_connect_inprogress && frng.chance(P.p_connect_inprogress)){ o->kind=Obj::CONNECTING; o->connect_to=a; o->conn_node=self?self->node:0; S.connect_inprogress++; trace_mix(0xC0222); tracef("connect fd=%d %s EINPROGRESS (nobody listens)",fd,a.c_str()); errno=EINPROGRESS; return -1; }
	if(it==listeners.end()){ tracef("connect %s refused",a.c_str()); errno=ECONNREFUSED; return -1; }
	if(cut_links.count({self?self->node:0,a})){ tracef("connect %s: link is cut",a.c_str()); S.partition_refused++; errno=ECONNREFUSED; return -1; }
	o->conn_node=self?self->node:0;
	if(o->nonblock && P.p_connect_inprogress && frng.chance(P.p_connect_inprogress)){ o->kind=Obj::CONNECTING; o->connect_to=a; S.connect_inprogress++; trace_mix(0xC0221); tracef("connect fd=%d %s EINPROGRESS",fd,a.c_str()); errno=EINPROGRESS; return -1; }
	auto l=get(it->second); auto srv=std::make_shared<Obj>();
	size_t c1=P.default_chan_cap,c2=P.default_chan_cap;
	bool nb=o->nonblock; int fam=o->family;
	make_pair(o,srv,c1,c2); o->nonblock=nb; o->family=fam; srv->family=l->family; srv->addr=l->addr; o->addr=a;
	l->backlog.push_back(srv); S.connects++; tracef("connect fd=%d %s",fd,a.c_str()); return 0; }
extern "C" int __wrap_close(int fd){ IGN; SIMFD(o,fd); if(!o) return __real_close(fd);
	yield(); o=get(fd); if(!o){ errno=EBADF; return -1; }
	if(o->kind==Obj::STREAM){ o->tx->wr_closed=true; o->rx->rd_closed=true; }
	if(o->kind==Obj::URANDOM && g_entropy_opens.size()<200000) g_entropy_opens.push_back(o->served);
	if(o->kind==Obj::LISTENER){ auto it=listeners.find(o->addr); if(it!=listeners.end()&&it->second==fd) listeners.erase(it);
		for(auto&s:o->backlog){ *s->reset=true; s->tx->wr_closed=true; s->rx->rd_closed=true; } }
	for(auto&e:fdtab) if(e && e->kind==Obj::EPOLL) e->interest.erase(fd);
	fdtab[fd].reset(); __real_close(fd); tracef("close %d",fd); return 0; }
extern "C" int __wrap_shutdown(int fd,int how){ IGN; SIMFD(o,fd); if(!o) return __real_shutdown(fd,how);
	if(o->kind!=Obj::STREAM){errno=ENOTCONN;return -1;} yield();
	if(how==SHUT_WR||how==SHUT_RDWR) o->tx->wr_closed=true; if(how==SHUT_RD||how==SHUT_RDWR) o->rx->rd_closed=true; tracef("shutdown %d how=%d",fd,how); return 0; }

static ssize_t file_read(Obj&o,const struct iovec*iov,int n);
static ssize_t file_write(Obj&o,const struct iovec*iov,int n);

static ssize_t do_read(int fd,Obj&o,const struct iovec*iov,int n){
	if(o.kind==Obj::FILE_||o.kind==Obj::URANDOM) return file_read(o,iov,n);
	if(o.kind!=Obj::STREAM){ errno=ENOTCONN; return -1; }
	size_t total=0; for(int i=0;i<n;i++) total+=iov[i].iov_len;
	if(P.p_eintr && frng.chance(P.p_eintr)){ S.eintr++; trace_mix(0xE1); tracef("read %d EINTR",fd); errno=EINTR; return -1; }
	if(*o.reset && o.rx->empty()){ errno=ECONNRESET; S.resets++; tracef("read %d ECONNRESET",fd); return -1; }   // like Linux: what was received before the RST is still delivered, then the error
	if(o.rx->rd_closed && o.rx->empty()) return 0;
	if(o.nonblock && !o.rx->empty() && P.p_spurious && frng.chance(P.p_spurious)){ S.spurious++; trace_mix(0xE2); errno=EAGAIN; tracef("read %d spurious EAGAIN",fd); return -1; }
	while(o.rx->empty()){
		if(o.rx->wr_closed){ tracef("read %d EOF",fd); return 0; }
		if(o.nonblock){ errno=EAGAIN; S.eagain_r++; tracef("read %d EAGAIN",fd); return -1; }
		Obj*p=&o; int64_t dl=o.rcvtimeo_us>0? now_us()+o.rcvtimeo_us : -1;
		if(!block([p]{return !p->rx->empty()||p->rx->wr_closed||*p->reset;},dl,"read")){ errno=EAGAIN; return -1; }
		if(*o.reset && o.rx->empty()){ errno=ECONNRESET; S.resets++; return -1; }
	}
	if(total==0) return 0;
	size_t k=std::min(o.rx->size(),total);
	if(k>1 && P.p_short_read && frng.chance(P.p_short_read)){ k=1+frng.below(k); S.short_reads++; }
	size_t done=0; for(int i=0;i<n&&done<k;i++){ size_t c=std::min(iov[i].iov_len,k-done); o.rx->pop((char*)iov[i].iov_base,c); done+=c; }
	S.bytes_rx+=done; trace_mix(0x5100+done); tracef("read %d -> %zu",fd,done);
	return done;
}
static ssize_t do_write(int fd,Obj&o,const struct iovec*iov,int n){
	if(o.kind==Obj::FILE_) return file_write(o,iov,n);
	if(o.kind!=Obj::STREAM){ errno=ENOTCONN; return -1; }
	if(n>1024){ errno=EINVAL; return -1; }
	if(P.p_eintr && frng.chance(P.p_eintr)){ S.eintr++; trace_mix(0xE3); tracef("write %d EINTR",fd); errno=EINTR; return -1; }
	if(*o.reset){ errno=ECONNRESET; S.resets++; tracef("write %d ECONNRESET",fd); return -1; }
	if(o.tx->rd_closed||o.tx->wr_closed){ errno=EPIPE; S.epipe++; tracef("write %d EPIPE",fd); return -1; }
	size_t total=0; for(int i=0;i<n;i++) total+=iov[i].iov_len; if(total==0) return 0;
	// never on a pipe: a non-blocking pipe write fails with EAGAIN only when the pipe is full (a lost wake-up byte of the loop's self-pipe would be a fault no kernel produces)
	if(o.nonblock && !o.pipe_end && P.p_spurious && frng.chance(P.p_spurious)){ S.spurious++; trace_mix(0xE4); errno=EAGAIN; tracef("write %d spurious EAGAIN",fd); return -1; }
	while(o.tx->room()==0){
		if(o.nonblock){ errno=EAGAIN; S.eagain_w++; tracef("write %d EAGAIN",fd); return -1; }
		Obj*p=&o; int64_t dl=o.sndtimeo_us>0? now_us()+o.sndtimeo_us : -1;
		if(!block([p]{return p->tx->room()>0||p->tx->rd_closed||*p->reset;},dl,"write")){ errno=EAGAIN; tracef("write %d timeout",fd); return -1; }
		if(*o.reset){ errno=ECONNRESET; S.resets++; return -1; }
		if(o.tx->rd_closed){ errno=EPIPE; S.epipe++; return -1; }
	}
	size_t k=std::min(o.tx->room(),total);
	if(k>1 && P.p_short_write && frng.chance(P.p_short_write)){ k=1+frng.below(k); }
	if(k<total) S.short_writes++;
	size_t done=0; for(int i=0;i<n&&done<k;i++){ size_t c=std::min(iov[i].iov_len,k-done); o.tx->push((const char*)iov[i].iov_base,c); done+=c; }
	o.tx->total_in+=done; S.bytes_tx+=done; trace_mix(0x5200+done); tracef("write %d -> %zu of %zu",fd,done,total);
	return done;
}
extern "C" ssize_t __wrap_readv(int fd,const struct iovec*iov,int n){ IGN; SIMFD(o,fd); if(!o) return __real_readv(fd,iov,n); yield(); return do_read(fd,*o,iov,n); }
extern "C" ssize_t __wrap_writev(int fd,const struct iovec*iov,int n){ IGN; SIMFD(o,fd); if(!o) return __real_writev(fd,iov,n); yield(); return do_write(fd,*o,iov,n); }
extern "C" ssize_t __wrap_read(int fd,void*b,size_t n){ IGN; SIMFD(o,fd); if(!o) return __real_read(fd,b,n); yield(); struct iovec v={b,n}; return do_read(fd,*o,&v,1); }
extern "C" ssize_t __wrap_write(int fd,const void*b,size_t n){ IGN; SIMFD(o,fd); if(!o) return __real_write(fd,b,n); yield(); struct iovec v={(void*)b,n}; return do_write(fd,*o,&v,1); }
extern "C" int __wrap_pipe(int p[2]){ IGN; if(!in_sim()) return __real_pipe(p);
	auto r=std::make_shared<Obj>(),w=std::make_shared<Obj>(); make_pair(w,r,65536,0); r->family=AF_UNIX; w->family=AF_UNIX;
	r->tx->rd_closed=true; r->pipe_end=w->pipe_end=true; p[0]=newfd(r); p[1]=newfd(w); tracef("pipe %d %d",p[0],p[1]); return 0; }
extern "C" int __wrap_socketpair(int d,int t,int pr,int sv[2]){ IGN; if(!in_sim()) return __real_socketpair(d,t,pr,sv);
	auto a=std::make_shared<Obj>(),b=std::make_shared<Obj>(); make_pair(a,b,P.default_chan_cap,P.default_chan_cap); a->family=b->family=AF_UNIX;
	sv[0]=newfd(a); sv[1]=newfd(b); tracef("socketpair %d %d",sv[0],sv[1]); return 0; }

static int file_fcntl(Obj&o,int cmd,void*arg);
extern "C" int __wrap_fcntl(int fd,int cmd,...){ IGN; va_list ap; va_start(ap,cmd); long arg=va_arg(ap,long); va_end(ap); SIMFD(o,fd); if(!o) return __real_fcntl(fd,cmd,arg);
	if(cmd==F_GETFL) return (o->nonblock?O_NONBLOCK:0)|(o->oflags&O_ACCMODE); if(cmd==F_SETFL){ o->nonblock=(arg&O_NONBLOCK)!=0; return 0; }
	if(cmd==F_SETLK||cmd==F_SETLKW||cmd==F_GETLK) return file_fcntl(*o,cmd,(void*)arg);
	return 0; }
extern "C" int __wrap_ioctl(int fd,unsigned long req,...){ IGN; va_list ap; va_start(ap,req); void*arg=va_arg(ap,void*); va_end(ap); SIMFD(o,fd); if(!o) return __real_ioctl(fd,req,arg);
	if(req==FIONREAD){ *(int*)arg = o->rx? (int)o->rx->size():0; return 0; } if(req==FIONBIO){ o->nonblock=*(int*)arg!=0; return 0; } errno=EINVAL; return -1; }
extern "C" int __wrap_setsockopt(int fd,int lvl,int name,const void*val,socklen_t len){ IGN; SIMFD(o,fd); if(!o) return __real_setsockopt(fd,lvl,name,val,len);
	if(lvl==SOL_SOCKET&&(name==SO_SNDTIMEO||name==SO_RCVTIMEO)){ auto*tv=(const struct timeval*)val; int64_t v=tv->tv_sec*1000000LL+tv->tv_usec; if(name==SO_SNDTIMEO) o->sndtimeo_us=v; else o->rcvtimeo_us=v; }
	return 0; }
extern "C" int __wrap_getsockopt(int fd,int lvl,int name,void*val,socklen_t*len){ IGN; SIMFD(o,fd); if(!o) return __real_getsockopt(fd,lvl,name,val,len);
	if(val&&len&&*len>=sizeof(int)){ int v=0; if(lvl==SOL_SOCKET&&name==SO_ERROR){ v=o->so_error; o->so_error=0; } *(int*)val=v; *len=sizeof(int); } return 0; }
extern "C" int __wrap_getpeername(int fd,struct sockaddr*sa,socklen_t*len){ IGN; SIMFD(o,fd); if(!o) return __real_getpeername(fd,sa,len);
	if(o->kind!=Obj::STREAM){ errno=ENOTCONN; return -1; } yield(); o=get(fd); if(!o){ errno=EBADF; return -1; }
	if(o->reset && *o->reset){ S.getpeername_enotconn++; tracef("getpeername %d ENOTCONN (connection was reset)",fd); errno=ENOTCONN; return -1; }   // Linux: a TCP socket that received RST is in state CLOSE, inet_getname() answers ENOTCONN
	fill_addr(*o,sa,len,true); return 0; }
extern "C" int __wrap_getsockname(int fd,struct sockaddr*sa,socklen_t*len){ IGN; SIMFD(o,fd); if(!o) return __real_getsockname(fd,sa,len); fill_addr(*o,sa,len,false); return 0; }

// ---------------------------------------------------------------- reactors (level triggered)
extern "C" int __wrap_epoll_create(int n){ IGN; if(!in_sim()) return __real_epoll_create(n); auto o=std::make_shared<Obj>(); o->kind=Obj::EPOLL; int fd=newfd(o); tracef("epoll_create -> %d",fd); return fd; }
extern "C" int __wrap_epoll_ctl(int ep,int op,int fd,struct epoll_event*ev){ IGN; SIMFD(e,ep); if(!e) return __real_epoll_ctl(ep,op,fd,ev);
	if(e->kind!=Obj::EPOLL){errno=EINVAL;return -1;} if(!get(fd)){errno=EBADF;return -1;}
	if(op==EPOLL_CTL_DEL){ if(!e->interest.erase(fd)){errno=ENOENT;return -1;} return 0; }
	if(op==EPOLL_CTL_ADD && e->interest.count(fd)){errno=EEXIST;return -1;} if(op==EPOLL_CTL_MOD && !e->interest.count(fd)){errno=ENOENT;return -1;}
	{ uint32_t evs=ev->events; uint64_t dat=ev->data.u64; e->interest[fd]=std::make_pair(evs,dat); } tracef("epoll_ctl %d fd=%d ev=%x",op,fd,ev->events); return 0; }
static int ep_collect(Obj&e,struct epoll_event*out,int max){
	int n=0;
	for(auto&kv:e.interest){ auto o=get(kv.first); if(!o) continue; uint32_t want=kv.second.first,r=0;
		if((want&EPOLLIN)&&readable(*o)) r|=EPOLLIN; if((want&EPOLLOUT)&&writable(*o)) r|=EPOLLOUT; if(hup(*o)) r|=EPOLLHUP; if(err(*o)) r|=EPOLLERR;
		if(r){ if(n<max && out){ out[n].events=r; out[n].data.u64=kv.second.second; } n++; } }
	return out? std::min(n,max) : n; }
static bool maybe_eintr_poll(int timeout){ if(timeout!=0 && P.p_eintr && frng.chance(P.p_eintr)){ S.eintr++; trace_mix(0xE5); errno=EINTR; return true; } return false; }
extern "C" int __wrap_epoll_wait(int ep,struct epoll_event*out,int max,int timeout){ IGN; SIMFD(e,ep); if(!e) return __real_epoll_wait(ep,out,max,timeout);
	if(e->kind!=Obj::EPOLL){errno=EINVAL;return -1;} yield();
	int n=ep_collect(*e,out,max); if(n||timeout==0){ tracef("epoll_wait -> %d",n); return n; }
	if(maybe_eintr_poll(timeout)) return -1;
	Obj*p=e.get(); block([p]{ return ep_collect(*p,nullptr,0)>0; }, timeout<0?-1:now_us()+timeout*1000LL,"epoll_wait");
	n=ep_collect(*e,out,max); tracef("epoll_wait(blocked) -> %d",n); return n; }
static int poll_collect(struct pollfd*f,nfds_t n,bool write_back){
	int cnt=0;
	for(nfds_t i=0;i<n;i++){ short r=0; if(f[i].fd>=0){ auto o=get(f[i].fd); if(!o) r=POLLNVAL; else { if((f[i].events&POLLIN)&&readable(*o)) r|=POLLIN; if((f[i].events&POLLOUT)&&writable(*o)) r|=POLLOUT; if(hup(*o)) r|=POLLHUP; if(err(*o)) r|=POLLERR; } }
		if(write_back) f[i].revents=r; if(r) cnt++; }
	return cnt; }
extern "C" int __wrap_poll(struct pollfd*f,nfds_t n,int timeout){ IGN; if(!in_sim()) return __real_poll(f,n,timeout);
	bool any=false; for(nfds_t i=0;i<n;i++) if(f[i].fd>=0 && get(f[i].fd)) any=true;
	if(!any && n>0) return __real_poll(f,n,timeout);
	yield(); int c=poll_collect(f,n,true); if(c||timeout==0){ tracef("poll -> %d",c); return c; }
	if(maybe_eintr_poll(timeout)) return -1;
	block([f,n]{ return poll_collect(f,n,false)>0; }, timeout<0?-1:now_us()+timeout*1000LL,"poll");
	c=poll_collect(f,n,true); tracef("poll(blocked) -> %d",c); return c; }
static int select_collect(int nfds,fd_set*r,fd_set*w,fd_set*e,fd_set*ro,fd_set*wo,fd_set*eo){
	int cnt=0;
	for(int fd=0;fd<nfds;fd++){ auto o=get(fd); if(!o) continue;
		if(r&&FD_ISSET(fd,r)&&(readable(*o)||hup(*o))){ if(ro) FD_SET(fd,ro); cnt++; }
		if(w&&FD_ISSET(fd,w)&&(writable(*o)||err(*o))){ if(wo) FD_SET(fd,wo); cnt++; }
		if(e&&FD_ISSET(fd,e)&&err(*o)){ if(eo) FD_SET(fd,eo); cnt++; } }
	return cnt; }
extern "C" int __wrap_select(int nfds,fd_set*r,fd_set*w,fd_set*e,struct timeval*tv){ IGN; if(!in_sim()) return __real_select(nfds,r,w,e,tv);
	yield();
	for(int fd=0;fd<nfds;fd++){ bool in=(r&&FD_ISSET(fd,r))||(w&&FD_ISSET(fd,w))||(e&&FD_ISSET(fd,e)); if(in&&!get(fd)){ errno=EBADF; return -1; } }
	fd_set ro,wo,eo; FD_ZERO(&ro); FD_ZERO(&wo); FD_ZERO(&eo);
	int64_t to = tv ? tv->tv_sec*1000000LL+tv->tv_usec : -1;
	int c=select_collect(nfds,r,w,e,&ro,&wo,&eo);
	if(!c && to!=0){
		if(maybe_eintr_poll(1)) return -1;
		fd_set r2,w2,e2; if(r) r2=*r; if(w) w2=*w; if(e) e2=*e; fd_set*rp=r?&r2:nullptr,*wp=w?&w2:nullptr,*epp=e?&e2:nullptr;
		block([=]{ return select_collect(nfds,rp,wp,epp,nullptr,nullptr,nullptr)>0; }, to<0?-1:now_us()+to,"select");
		c=select_collect(nfds,r,w,e,&ro,&wo,&eo);
	}
	if(r)*r=ro; if(w)*w=wo; if(e)*e=eo; tracef("select -> %d",c); return c; }

// ================================================================ files
namespace simk {
static FsImage FS;
static std::vector<FsEvent> journal;
static uint64_t next_ino=100, n_opens=0, n_urandom_opens=0;
static std::vector<std::string> open_log;
struct SimDir { std::vector<std::string> names; size_t pos=0; };
static std::set<void*> simdirs;
static bool under_root(const char*p){ if(!g_active||!p) return false; size_t n=P.vroot.size(); return strncmp(p,P.vroot.c_str(),n)==0 && (p[n]=='/'||p[n]==0); }
static std::string norm(const std::string &p){ std::string r; for(char c:p){ if(c=='/'&&!r.empty()&&r.back()=='/') continue; r+=c; } while(r.size()>1&&r.back()=='/') r.pop_back(); return r; }
static std::string parent(const std::string &p){ size_t i=p.rfind('/'); return i==std::string::npos||i==0? "/" : p.substr(0,i); }
static std::map<FILE*,size_t> stdio_tracked; static bool stdio_stuck=false;   // tracked stream -> bytes written since the last successful flush
static void stdio_reset(){ stdio_tracked.clear(); stdio_stuck=false; }
static void fs_reset(){ stdio_reset(); FS.files.clear(); FS.dirs.clear(); FS.dirs.insert(P.vroot); journal.clear(); next_ino=100; n_opens=0; n_urandom_opens=0; open_log.clear(); for(void*d:simdirs) delete (SimDir*)d; simdirs.clear(); }
FsImage fs_snapshot(){ FsImage r; r.dirs=FS.dirs; for(auto&kv:FS.files) r.files[kv.first]=std::make_shared<FsFile>(*kv.second); return r; }
void fs_restore(const FsImage&img){ FS.dirs=img.dirs; FS.files.clear(); for(auto&kv:img.files) FS.files[kv.first]=std::make_shared<FsFile>(*kv.second); }
std::vector<FsEvent> &fs_journal(){ return journal; }
bool fs_exists(const std::string&p){ return FS.files.count(norm(p))||FS.dirs.count(norm(p)); }
std::vector<std::string> fs_list(const std::string&d){ std::vector<std::string> r; std::string dn=norm(d); for(auto&kv:FS.files) if(parent(kv.first)==dn) r.push_back(kv.first.substr(dn.size()+1)); for(auto&x:FS.dirs) if(x!=dn&&parent(x)==dn) r.push_back(x.substr(dn.size()+1)); return r; }
std::string *fs_data(const std::string&p){ auto it=FS.files.find(norm(p)); return it==FS.files.end()? nullptr : &it->second->data; }
void fs_put(const std::string&p,const std::string&d){ auto f=std::make_shared<FsFile>(); f->data=d; f->ino=next_ino++; FS.files[norm(p)]=f; }
void fs_remove(const std::string&p){ FS.files.erase(norm(p)); }
void fs_mkdir(const std::string&p){ FS.dirs.insert(norm(p)); }
uint64_t fs_opens(){ return n_opens; }
const std::vector<std::string> &fs_open_log(){ return open_log; }
} // ns
static ssize_t file_read(Obj&o,const struct iovec*iov,int n){
	size_t total=0; for(int i=0;i<n;i++) total+=iov[i].iov_len;
	if(P.p_file_eintr && frng.chance(P.p_file_eintr)){ S.file_eintr++; trace_mix(0xF1); errno=EINTR; return -1; }
	if(o.kind==Obj::URANDOM){
		size_t k=total; if(k>1 && P.p_file_short && frng.chance(P.p_file_short)){ k=1+frng.below(k); S.file_short++; }
		size_t done=0; for(int i=0;i<n&&done<k;i++){ size_t c=std::min(iov[i].iov_len,k-done); for(size_t j=0;j<c;j++){ unsigned char b=(unsigned char)(erng.next()>>32); ((unsigned char*)iov[i].iov_base)[j]=b; if(o.served.size()<4096) o.served.push_back((char)b); } done+=c; }
		return done; }
	if((o.oflags&O_ACCMODE)==O_WRONLY){ errno=EBADF; return -1; }
	std::string &d=o.file->data; if(o.pos>=d.size()||total==0) return 0;
	size_t k=std::min<size_t>(total,d.size()-o.pos);
	if(k>=P.file_short_min && k>1 && P.p_file_short && frng.chance(P.p_file_short)){ k=1+frng.below(k); S.file_short++; trace_mix(0xF2+k); }
	size_t done=0; for(int i=0;i<n&&done<k;i++){ size_t c=std::min(iov[i].iov_len,k-done); memcpy(iov[i].iov_base,d.data()+o.pos+done,c); done+=c; }
	o.pos+=done; tracef("fread %s -> %zu",o.path.c_str(),done); return done;
}
static ssize_t file_write(Obj&o,const struct iovec*iov,int n){
	if((o.oflags&O_ACCMODE)==O_RDONLY){ errno=EBADF; return -1; }
	if(P.p_file_eintr && frng.chance(P.p_file_eintr)){ S.file_eintr++; trace_mix(0xF3); errno=EINTR; return -1; }
	std::string all; for(int i=0;i<n;i++) all.append((const char*)iov[i].iov_base,iov[i].iov_len);
	if(all.empty()) return 0;
	// armed disk fault (full disk / I/O error): after `skip` more writes the disk takes a last partial write (when the write is long enough to be cut), then every write fails until disarmed
	if(g_fwf_armed){ if(g_fwf_failing){ S.file_write_failed++; trace_mix(0xF7); tracef("fwrite %s: error %d (injected)",o.path.c_str(),g_fwf_errno); errno=g_fwf_errno; return -1; }
		if(g_fwf_skip>0) g_fwf_skip--; else { g_fwf_failing=true; if(g_fwf_errno==ENOSPC && all.size()>=P.file_short_min && all.size()>1 && frng.below(2)){ all.resize(1+frng.below(all.size()-1)); trace_mix(0xF8+all.size()); } else { S.file_write_failed++; trace_mix(0xF7); errno=g_fwf_errno; return -1; } } }
	size_t k=all.size(); if(k>=P.file_short_min && k>1 && P.p_file_short && frng.chance(P.p_file_short)){ k=1+frng.below(k); S.file_short++; trace_mix(0xF4+k); all.resize(k); }
	std::string &d=o.file->data; if(o.oflags&O_APPEND) o.pos=d.size();
	FsEvent ev; ev.kind=FsEvent::WRITE; ev.path=o.path; ev.off=o.pos; ev.old_size=d.size(); ev.new_bytes=all;
	if(o.pos<d.size()) ev.old_bytes=d.substr(o.pos,std::min(k,d.size()-o.pos));
	if(o.pos+k>d.size()) d.resize(o.pos+k,0);
	memcpy(&d[o.pos],all.data(),k); o.pos+=k; journal.push_back(ev); tracef("fwrite %s off=%lu -> %zu",o.path.c_str(),(unsigned long)ev.off,k); return k;
}
static int file_fcntl(Obj&o,int cmd,void*arg){
	if(o.kind!=Obj::FILE_){ errno=EINVAL; return -1; }
	struct flock*fl=(struct flock*)arg; int me=self? self->node : 0;
	// POSIX record locks are per process: a "node" stands for a process here; whole-file locks only.
	std::shared_ptr<FsFile> f=o.file;
	auto holder=[f,me]()->bool{ for(auto&e:fdtab) if(e&&e->kind==Obj::FILE_&&e->file==f&&e->lock_node>=0&&e->lock_node!=me) return true; return false; };
	if(cmd==F_GETLK){ fl->l_type = holder()? F_WRLCK : F_UNLCK; return 0; }
	if(fl->l_type==F_UNLCK){ o.lock_node=-1; yield(); return 0; }
	if(P.p_file_eintr && cmd==F_SETLKW && frng.chance(P.p_file_eintr)){ S.file_eintr++; errno=EINTR; return -1; }
	yield();
	if(holder()){ if(cmd==F_SETLK){ errno=EAGAIN; return -1; } block([holder]{ return !holder(); },-1,"flock"); }
	o.lock_node=me; return 0;
}
static void fill_stat(struct stat*st,FsFile*f,bool dir){ memset(st,0,sizeof(*st)); st->st_dev=7; st->st_nlink=1; if(dir){ st->st_mode=S_IFDIR|0777; st->st_ino=2; } else { st->st_mode=S_IFREG|0666; st->st_size=f->data.size(); st->st_ino=f->ino; } }
extern "C" int __wrap_open(const char*path,int flags,...){ IGN; mode_t mode=0; if(flags&O_CREAT){ va_list ap; va_start(ap,flags); mode=va_arg(ap,mode_t); va_end(ap); }
	if(g_active && path && strcmp(path,"/dev/urandom")==0){ yield(); { uint64_t i=n_urandom_opens++; for(uint32_t x:P.urandom_fail_at) if(x==i){ S.urandom_open_failed++; trace_mix(0x0EF110 + i); tracef("open /dev/urandom: EMFILE (injected)"); errno=EMFILE; return -1; } } auto o=std::make_shared<Obj>(); o->kind=Obj::URANDOM; o->path=path; o->oflags=flags; return newfd(o); }
	if(!under_root(path)) return __real_open(path,flags,mode);
	yield(); std::string p=norm(path); n_opens++; open_log.push_back(p);
	if(FS.dirs.count(p)){ errno=EISDIR; return -1; }
	auto it=FS.files.find(p); std::shared_ptr<FsFile> f;
	if(it==FS.files.end()){
		if(!(flags&O_CREAT)){ errno=ENOENT; return -1; }
		if(!FS.dirs.count(parent(p))){ errno=ENOENT; return -1; }
		f=std::make_shared<FsFile>(); f->ino=next_ino++; FS.files[p]=f; FsEvent ev; ev.kind=FsEvent::CREATE; ev.path=p; journal.push_back(ev);
	} else { if((flags&O_CREAT)&&(flags&O_EXCL)){ errno=EEXIST; return -1; } f=it->second;
		if((flags&O_TRUNC)&&(flags&O_ACCMODE)!=O_RDONLY&&!f->data.empty()){ FsEvent ev; ev.kind=FsEvent::TRUNC; ev.path=p; ev.old_bytes=f->data; ev.old_size=f->data.size(); journal.push_back(ev); f->data.clear(); } }
	auto o=std::make_shared<Obj>(); o->kind=Obj::FILE_; o->file=f; o->path=p; o->oflags=flags; int fd=newfd(o); tracef("open %s -> %d",p.c_str(),fd); return fd; }
extern "C" off_t __wrap_lseek(int fd,off_t off,int wh){ IGN; SIMFD(o,fd); if(!o) return __real_lseek(fd,off,wh); if(o->kind!=Obj::FILE_){ errno=ESPIPE; return -1; }
	int64_t np = wh==SEEK_SET? off : wh==SEEK_CUR? (int64_t)o->pos+off : (int64_t)o->file->data.size()+off; if(np<0){ errno=EINVAL; return -1; } o->pos=np; return np; }
extern "C" int __wrap_unlink(const char*path){ IGN; if(!under_root(path)) return __real_unlink(path); yield(); std::string p=norm(path); open_log.push_back(p);
	auto it=FS.files.find(p); if(it==FS.files.end()){ errno=ENOENT; return -1; } FsEvent ev; ev.kind=FsEvent::UNLINK; ev.path=p; ev.old_bytes=it->second->data; journal.push_back(ev); FS.files.erase(it); tracef("unlink %s",p.c_str()); return 0; }
extern "C" int __wrap_rename(const char*a,const char*b){ IGN; if(!under_root(a)||!under_root(b)) return __real_rename(a,b); yield(); std::string p=norm(a),q=norm(b);
	auto it=FS.files.find(p); if(it==FS.files.end()){ errno=ENOENT; return -1; } FsEvent ev; ev.kind=FsEvent::RENAME; ev.path=p; ev.path2=q; journal.push_back(ev); FS.files[q]=it->second; FS.files.erase(p); return 0; }
extern "C" int __wrap_stat(const char*path,struct stat*st){ IGN; if(!under_root(path)) return __real_stat(path,st); std::string p=norm(path); open_log.push_back(p);
	if(FS.dirs.count(p)){ fill_stat(st,nullptr,true); return 0; } auto it=FS.files.find(p); if(it==FS.files.end()){ errno=ENOENT; return -1; } fill_stat(st,it->second.get(),false); return 0; }
extern "C" int __wrap_fstat(int fd,struct stat*st){ IGN; SIMFD(o,fd); if(!o) return __real_fstat(fd,st); if(o->kind==Obj::FILE_){ fill_stat(st,o->file.get(),false); return 0; } memset(st,0,sizeof(*st)); st->st_mode=S_IFSOCK|0666; return 0; }
extern "C" int __wrap_mkdir(const char*path,mode_t m){ IGN; if(!under_root(path)) return __real_mkdir(path,m); std::string p=norm(path);
	if(FS.dirs.count(p)||FS.files.count(p)){ errno=EEXIST; return -1; } if(!FS.dirs.count(parent(p))){ errno=ENOENT; return -1; } FS.dirs.insert(p); FsEvent ev; ev.kind=FsEvent::MKDIR; ev.path=p; journal.push_back(ev); return 0; }
extern "C" DIR *__wrap_opendir(const char*path){ IGN; if(!under_root(path)) return __real_opendir(path); yield(); std::string p=norm(path);
	if(!FS.dirs.count(p)){ errno=ENOENT; return nullptr; } auto*d=new SimDir; d->names=fs_list(p); d->names.push_back("."); d->names.push_back("..");
	for(size_t i=d->names.size();i>1;i--){ size_t j=frng.below(i); std::swap(d->names[i-1],d->names[j]); }
	simdirs.insert(d); return (DIR*)d; }
extern "C" int __wrap_readdir_r(DIR*dp,struct dirent*e,struct dirent**res){ IGN; if(!simdirs.count(dp)) return __real_readdir_r(dp,e,res);
	SimDir*d=(SimDir*)dp; yield(); if(d->pos>=d->names.size()){ *res=nullptr; return 0; }
	memset(e,0,offsetof(struct dirent,d_name)); std::string &n=d->names[d->pos++]; snprintf(e->d_name,256,"%s",n.c_str()); e->d_ino=d->pos+10; e->d_type=DT_UNKNOWN; *res=e; return 0; }
extern "C" int __wrap_closedir(DIR*dp){ IGN; if(!simdirs.count(dp)) return __real_closedir(dp); simdirs.erase(dp); delete (SimDir*)dp; return 0; }
// ---- stdio faults: FILE streams are real (glibc), only failures are injected, at explicit positions of the plan
static bool stdio_fault(const char*what){ if(!g_active) return false; uint64_t i=S.stdio_ops++; bool f=stdio_stuck;
	if(!f) for(uint32_t x:P.stdio_fail_at) if(x==i){ f=true; break; }
	if(f){ S.stdio_fail++; if(P.stdio_sticky) stdio_stuck=true; trace_mix(0x5D10+i); tracef("stdio fault #%llu in %s",(unsigned long long)i,what); if(getenv("SIMK_DEBUG_FAULTS")) fprintf(stderr,"SIMK stdio fault #%llu in %s\n",(unsigned long long)i,what); } return f; }
extern "C" FILE *__wrap_fopen(const char*path,const char*mode){ IGN; bool tr = g_active && !P.stdio_track.empty() && path && strstr(path,P.stdio_track.c_str());
	if(tr && stdio_fault("fopen")){ errno=ENOSPC; return nullptr; } FILE*f=__real_fopen(path,mode); if(tr && f) stdio_tracked[f]=0; return f; }
// only calls that have something to put on the disk can fail: a write of n>0 bytes, and a flush or seek while written data may still sit in the stream's buffer
extern "C" size_t __wrap_fwrite(const void*p,size_t sz,size_t n,FILE*f){ if(!g_active) return __real_fwrite(p,sz,n,f); auto it=stdio_tracked.find(f); if(it==stdio_tracked.end() || sz*n==0) return __real_fwrite(p,sz,n,f); IGN;
	if(stdio_fault("fwrite")){ size_t total=sz*n, k=frng.below(total); if(k) __real_fwrite(p,1,k,f); it->second+=k; errno=ENOSPC; return k/sz; } size_t r=__real_fwrite(p,sz,n,f); it->second+=r*sz; return r; }
static int stdio_flushing(FILE*f,const char*what,int err){ auto it=stdio_tracked.find(f); if(it==stdio_tracked.end() || it->second==0) return 0; if(stdio_fault(what)){ errno=err; return -1; } it->second=0; return 0; }
extern "C" int __wrap_fflush(FILE*f){ if(!g_active || !f) return __real_fflush(f); IGN; if(stdio_flushing(f,"fflush",ENOSPC)) return EOF; return __real_fflush(f); }
extern "C" int __wrap_fseek(FILE*f,long o,int w){ if(!g_active) return __real_fseek(f,o,w); IGN; if(stdio_flushing(f,"fseek",ENOSPC)) return -1; return __real_fseek(f,o,w); }
extern "C" int __wrap_fseeko(FILE*f,off_t o,int w){ if(!g_active) return __real_fseeko(f,o,w); IGN; if(stdio_flushing(f,"fseeko",ENOSPC)) return -1; return __real_fseeko(f,o,w); }
extern "C" int __wrap_fclose(FILE*f){ if(g_active) stdio_tracked.erase(f); return __real_fclose(f); }
// a read from a tracked stream that comes back short (I/O error after some bytes, file shrunk under the reader): armed with Params.fread_short_bytes
extern "C" size_t __real_fread(void*,size_t,size_t,FILE*);
extern "C" size_t __wrap_fread(void*p,size_t sz,size_t n,FILE*f){ if(!g_active || P.fread_short_bytes==(size_t)-1 || sz*n==0 || !stdio_tracked.count(f) || sz*n<=P.fread_short_bytes) return __real_fread(p,sz,n,f); IGN;
	S.fread_short++; trace_mix(0xF2EAD); tracef("fread: %zu of %zu bytes, then an error",P.fread_short_bytes,sz*n); size_t k=P.fread_short_bytes ? __real_fread(p,1,P.fread_short_bytes,f) : 0; errno=EIO; return k/sz; }

// ================================================================ hooks called from /repo (guard ARTYOM_BEILIS_CPPCMS_VERIF)
namespace simk { std::map<std::string,uint64_t> g_probes; std::map<std::string,uint64_t> &probes(){ return g_probes; } }
extern "C" unsigned artyom_beilis_cppcms_verif_rand(){ IGN; return g_active ? (unsigned)(frng.next() >> 16) : 0u; }
extern "C" void artyom_beilis_cppcms_verif_probe(const char *id){ IGN; if(g_active) simk::g_probes[id]++; }
