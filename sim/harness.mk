# Builds one harness binary per engine and sanitizer variant, with header dependency tracking (so that an edit
# to a /repo header the harness includes triggers a recompile).  Invoked by bin/build-harness.
V ?= asan
E ?= e2_cache_seq
REPO ?= /repo
H ?= /verif
OUT ?= $(H)/build
B := $(OUT)/$(V)
ifeq ($(V),asan)
SAN := -fsanitize=address,undefined -fno-sanitize=nonnull-attribute -fno-sanitize-recover=undefined -fno-omit-frame-pointer
LSAN := $(SAN)
endif
ifeq ($(V),tsan)
# simulator and harness are deliberately NOT instrumented (DESIGN 2.1); only the cppcms/booster archives are
SAN := -DVERIF_TSAN_VARIANT
LSAN := -fsanitize=thread
endif
ifeq ($(V),cov)
# measurement only (bin/coverage): gcov-instrumented archives, which lines of /repo the engines reach
SAN := -DVERIF_COV
LSAN := --coverage
endif
INC := -I$(REPO) -I$(REPO)/booster -I$(B) -I$(B)/booster -I$(REPO)/private -I$(REPO)/src -I$(REPO)/tests
CXXF := -std=c++17 -O1 -g -w -DARTYOM_BEILIS_CPPCMS_VERIF $(SAN) -MMD -MP
WRAP := $(shell tr -s ' \n' '\n' < $(H)/sim/wrap.list | sed '/^$$/d' | sed 's/^/-Wl,--wrap=/' | tr '\n' ' ')
LIBS := $(B)/libcppcms.a $(B)/booster/libbooster.a -lpcre -lz -lcrypto -ldl -licuuc -licui18n -licudata -lpthread

all: $(B)/h/$(E)
$(B)/h/simk.o: $(H)/sim/simk.cpp
	@mkdir -p $(B)/h
	g++ $(CXXF) -c $< -o $@
$(B)/h/$(E).o: $(H)/harness/$(E).cpp
	@mkdir -p $(B)/h
	g++ $(CXXF) $(INC) -c $< -o $@
$(B)/h/$(E): $(B)/h/$(E).o $(B)/h/simk.o $(B)/libcppcms.a $(B)/booster/libbooster.a $(H)/sim/wrap.list
	g++ $(LSAN) -o $@ $(B)/h/$(E).o $(B)/h/simk.o $(WRAP) $(LIBS)
-include $(B)/h/$(E).d $(B)/h/simk.d
